#!/bin/bash
# tools/process_seed.sh <PROP> <n> [check ids...]: verify the sub-agent's seed /tmp/seed-out/<PROP>/<n>
# in a scratch worktree, then run the quick tier of the checks (default all) against it, and file
# everything under /verif/seeded/<PROP>-<n>/.
set -u
P="$1"; N="$2"; shift 2
SRC=/tmp/seed-out/$P/$N
DST=/verif/seeded/$P-$N
[ -f "$SRC/patch.diff" ] || { echo "no seed at $SRC"; exit 2; }
mkdir -p "$DST"
cp "$SRC/patch.diff" "$DST/patch.diff"; cp "$SRC/demo.rs" "$DST/demo.rs" 2>/dev/null; cp "$SRC/notes.md" "$DST/notes.md" 2>/dev/null
/verif/tools/verify_seed.sh "$SRC" > "$DST/verify.log" 2>&1; vrc=$?
cat "$DST/verify.log"
if [ $vrc -ne 0 ]; then echo "seed rejected"; exit 1; fi
/verif/tools/run_checks_on_patch.sh "$SRC/patch.diff" "$@" > "$DST/checks.log" 2>&1
cat "$DST/checks.log"
python3 - "$P" "$N" <<'PY'
import sys,json,re
P,N=sys.argv[1],sys.argv[2]
d=f"/verif/seeded/{P}-{N}"
caught=[]; missed=[]
for l in open(f"{d}/checks.log"):
    m=re.match(r"(C\d\d) exit=(\d+) (violations=\d+)?\s*(.*)",l)
    if not m: continue
    (caught if m.group(2)=="1" else missed).append({"check":m.group(1),"exit":int(m.group(2)),"violations":m.group(3),"first":m.group(4).strip()})
meta={"breaks_property":P,"seed":f"{P}-{N}","origin":"independent sub-agent given only the property text and a scratch worktree",
 "confirmed":{"patch_applies":True,"suite_with_patch":"194 passed 0 failed","demo_with_patch":"fails","demo_without_patch":"passes","how":"tools/verify_seed.sh in a scratch worktree of /repo (see verify.log)"},
 "checks_run":"quick tier via tools/run_checks_on_patch.sh (patch applied to /repo's working tree, undone afterwards)",
 "caught_by":[c["check"] for c in caught],"not_caught_by":[c["check"] for c in missed],"details":caught}
json.dump(meta,open(f"{d}/meta.json","w"),indent=1,ensure_ascii=False)
print("caught by:",[c["check"] for c in caught])
PY
