#!/bin/bash
# tools/devlab.sh <patch.diff|-> <frmc args...>: run the current harness (incremental copy) against a private
# worktree of /repo HEAD with the patch applied ("-" = no patch); /repo itself is never touched.
set -u
LAB=${LAB:-/tmp/devlab}
PATCH="$1"; shift
mkdir -p $LAB/out
[ -d $LAB/repo ] || git -C /repo worktree add -q --detach $LAB/repo HEAD
(cd $LAB/repo && git checkout -q --detach "$(git -C /repo rev-parse HEAD)" && git checkout -q -- .)
rsync -a --exclude target --exclude Cargo.toml /verif/mc/ $LAB/mc/
for f in frmc/Cargo.toml c18static/Cargo.toml Cargo.toml frmc-core/Cargo.toml; do
  sed "s|path = \"/repo\"|path = \"$LAB/repo\"|" /verif/mc/$f > $LAB/mc/$f.new
  cmp -s $LAB/mc/$f.new $LAB/mc/$f 2>/dev/null || cp $LAB/mc/$f.new $LAB/mc/$f
  rm -f $LAB/mc/$f.new
done
cp /verif/known_findings.json $LAB/known_findings.json
if [ "$PATCH" != "-" ]; then (cd $LAB/repo && git apply "$PATCH") || { echo "cannot apply"; exit 2; }; fi
(cd $LAB/mc && cargo build --release --offline 2>&1 | grep -E "^error" -A10 | head -30)
cd $LAB && VERIF_DIR=$LAB VERIF_OUT_DIR=$LAB/out $LAB/mc/target/release/frmc "$@"
rc=$?
(cd $LAB/repo && git checkout -q -- .)
echo "exit=$rc"
