#!/bin/bash
# tools/rerun_all_seeds.sh [n_labs]: re-run every seed under /verif/seeded (not SAFE-*) against the current
# harness and /repo HEAD in n parallel labs; each seed's meta.json / checks.log are rewritten.
N=${1:-3}
cd /verif
seeds=($(ls seeded | grep -E '^C[0-9]+-[0-9]+$' | sort))
for i in $(seq 1 $N); do
  (
    export LAB=/tmp/seedlab$i
    tools/seedlab.sh setup > $LAB.setup.log 2>&1
    for idx in "${!seeds[@]}"; do
      if [ $((idx % N)) -eq $((i - 1)) ]; then
        s=${seeds[$idx]}; P=${s%-*}; n=${s#*-}
        echo "##### $P $n"
        tools/seedlab.sh run $P $n 2>&1 | grep -vE "^C[0-9]+ exit=0"
      fi
    done
  ) > /tmp/rerun_lab$i.log 2>&1 &
done
wait
echo "all labs done"
