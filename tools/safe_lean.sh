#!/bin/bash
# tools/safe_lean.sh <lab#> <SAFE-name>...: lean false-alarm re-run - the quick tier of the checks changed since the
# last full SAFE run (list in IDS) against a behaviour-preserving change, in seed lab <lab#> (tools/seedlab.sh setup first).
# Appends to /verif/seeded/<name>/checks_lean.log; the full-matrix outcome stays in checks.log / meta.json.
set -u
k=$1; shift
LAB=/tmp/seedlab$k
IDS=${IDS:-"C20 C14 C10 C12 C05 C07 C04 C11 C01"}
for NAME in "$@"; do
  DST=/verif/seeded/$NAME
  cd $LAB/repo && git checkout -q -- . && git apply $DST/patch.diff || { echo "$NAME APPLY: FAIL"; continue; }
  cd $LAB; echo "# harness $(git -C /verif rev-parse --short HEAD), checks: $IDS" >> $DST/checks_lean.log
  for id in $IDS; do
    out=$(VERIF_DIR=$LAB VERIF_OUT_DIR=$LAB/out ./check $id quick 2>&1); rc=$?
    first=$(echo "$out" | grep -A1 "^VIOLATION" | grep -E "^  " | head -1 | cut -c1-260)
    [ -z "$first" ] && [ $rc -ne 0 ] && first=$(echo "$out" | grep -iE "machinery|error" | head -1 | cut -c1-200)
    echo "$id exit=$rc $first" | tee -a $DST/checks_lean.log
  done
  cd $LAB/repo && git checkout -q -- .
  echo "$NAME done"
done
