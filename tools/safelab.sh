#!/bin/bash
# tools/safelab.sh <name> <patch.diff> <notes.md> <change description>: false-alarm test. Applies a behaviour-preserving change in a
# private lab worktree, confirms the suite passes, runs the quick tier of all 20 checks against it and
# files the outcome under /verif/seeded/<name>/ (meta.json: alarms must be empty).
set -u
LAB=${LAB:-/tmp/seedlab4}
NAME="$1"; PATCH="$2"; NOTES="$3"; DESC="$4"
DST=/verif/seeded/$NAME; mkdir -p $DST
[ "$PATCH" -ef "$DST/patch.diff" ] || cp "$PATCH" $DST/patch.diff
[ -f "$NOTES" ] && { [ "$NOTES" -ef "$DST/notes.md" ] || cp "$NOTES" $DST/notes.md; }
[ -x $LAB/mc/target/release/frmc ] || tools/seedlab.sh setup > $LAB.setup.log 2>&1
cd $LAB/repo && git checkout -q -- . && git apply --check $DST/patch.diff || { echo "APPLY: FAIL"; exit 1; }
git apply $DST/patch.diff
res=$(cargo test --workspace --no-fail-fast --offline 2>&1 | grep -E "^test result" | awk '{p+=$4; f+=$6} END {print p" passed "f" failed"}')
echo "SUITE-WITH-PATCH: $res"
cd $LAB; : > $DST/checks.log
for id in C01 C02 C03 C04 C05 C06 C07 C08 C09 C10 C11 C12 C13 C14 C15 C16 C17 C18 C19 C20; do
  out=$(VERIF_DIR=$LAB VERIF_OUT_DIR=$LAB/out ./check $id quick 2>&1); rc=$?
  first=$(echo "$out" | grep -A1 "^VIOLATION" | grep -E "^  " | head -1 | cut -c1-260)
  [ -z "$first" ] && [ $rc -ne 0 ] && first=$(echo "$out" | grep -iE "machinery|error" | head -1 | cut -c1-200)
  echo "$id exit=$rc $first" | tee -a $DST/checks.log
done
cd $LAB/repo && git checkout -q -- .
python3 - "$NAME" "$res" "$DESC" <<'PY'
import sys,json,re
name,res,desc=sys.argv[1:4]
d=f"/verif/seeded/{name}"
alarms=[l.strip() for l in open(f"{d}/checks.log") if not re.match(r"C\d\d exit=0", l)]
meta={"seed":name,"kind":"behaviour-preserving change (false-alarm test)","change":desc,
 "origin":"sub-agent asked for correct refactorings/optimisations, with its own differential test against HEAD (see notes.md)",
 "confirmed":{"suite_with_patch":res},"checks_run":"quick tier of all 20 checks in a seed lab (harness built against the patched worktree)",
 "alarms":alarms,"result":"no check raised a violation or a machinery error" if not alarms else "ALARMS - see checks.log"}
json.dump(meta,open(f"{d}/meta.json","w"),indent=1,ensure_ascii=False)
print("alarms:",alarms)
PY
