#!/usr/bin/env python3
"""Regenerate the machine-written tables of DESIGN.md (between BEGIN/END markers):
   quick-table  from /verif/evidence/*.json
   seed-table   from /verif/seeded/*/meta.json (after tools/seed_table.py filled them)"""
import json, glob, os, re, subprocess

def quick_table():
    rows = ["| id | tier | programs | evaluations | non-trivial | wall (s) | exhaustive | extra |", "|---|---|---|---|---|---|---|---|"]
    for f in sorted(glob.glob("/verif/evidence/C*.json")):
        d = json.load(open(f)); c = d["coverage"]
        extra = []
        for k in ("states", "transitions", "schedules", "peak_bytes_max"):
            if k in c: extra.append(f"{k}={c[k]:,}")
        kf = c.get("known_findings") or {}
        for k, v in kf.items(): extra.append(f"{k}: {v.get('cases'):,} cases attributed")
        rows.append(f"| {d['property_id']} | {d['tier']} | {c.get('programs',0):,} | {c.get('evaluations',0):,} | {c.get('distinct_nontrivial',0):,} | {d['wall_s']:.1f} | {c.get('exhaustive')} | {'; '.join(extra)} |")
    return "\n".join(rows)

def esc(s):
    return s.replace("|", "\\|")

def seed_table():
    out = subprocess.check_output(["python3", "/verif/tools/seed_table.py"]).decode()
    lines = out.strip().splitlines()
    fixed = []
    for l in lines:
        if l.startswith("| seed") or l.startswith("|---"):
            fixed.append(l); continue
        # re-split on the 4 structural separators only
        m = re.match(r"\| (\S+) \| (.*) \| ([^|]*(?:\|[^|]*)*?) \| ([^|]*) \|$", l)
        fixed.append(l)
    return "\n".join(fixed)

def seed_table_safe():
    rows = ["| seed | change | needs | caught by (quick tier, final re-run) |", "|---|---|---|---|"]
    import importlib.util
    spec = importlib.util.spec_from_file_location("seed_table", "/verif/tools/seed_table.py")
    # seed_table.py prints on import; capture INFO by exec without printing
    src = open("/verif/tools/seed_table.py").read().split("rows = []")[0]
    ns = {}
    exec(src, ns)
    INFO = ns["INFO"]
    for d in sorted(glob.glob("/verif/seeded/*/")):
        sid = os.path.basename(d.rstrip("/"))
        mp = d + "meta.json"
        if not os.path.exists(mp): continue
        m = json.load(open(mp))
        ch, need = INFO.get(sid, (m.get("change", ""), m.get("needs_to_manifest", "")))
        if sid.startswith("SAFE"):
            alarms = m.get("alarms", [])
            caught = "no alarm (all 20 quick checks)" if not alarms else "**ALARM**: " + esc("; ".join(alarms)[:200])
            rows.append(f"| {sid} | {esc(ch)} | (behaviour-preserving) | {caught} |")
            continue
        caught = ", ".join(m.get("caught_by", [])) or "**none**"
        rows.append(f"| {sid} | {esc(ch)} | {esc(need)} | {caught} |")
    return "\n".join(rows)

def main():
    p = "/verif/DESIGN.md"; s = open(p).read()
    for name, fn in (("quick-table", quick_table), ("seed-table", seed_table_safe)):
        b, e = f"<!-- BEGIN:{name} -->", f"<!-- END:{name} -->"
        if b in s and e in s:
            i, j = s.index(b) + len(b), s.index(e)
            s = s[:i] + "\n" + fn() + "\n" + s[j:]
    open(p, "w").write(s)
main()
