#!/bin/bash
# tools/rerun_lean.sh <lab-index> <n-labs>: re-run the seeds under /verif/seeded against the lab's harness copy, each against
# the check of the property it breaks, every check that caught it in an earlier run, and the checks
# listed in tools/rerun_extra.json. (A full 160 x 20 matrix costs ~8 h of this machine; the first three
# waves had the full matrix when they were processed - see checks.log history in git.)
set -u
I=$1; N=$2; LAB=/tmp/seedlab$I
cd /verif
seeds=($(ls seeded | grep -E '^C[0-9]+-[0-9]+$' | sort))
HC=$(git -C /verif rev-parse --short HEAD); RC=$(git -C /repo rev-parse --short HEAD)
for idx in "${!seeds[@]}"; do
  s=${seeds[$idx]}; P=${s%-*}; D=/verif/seeded/$s
  if [ -n "${ONLY:-}" ]; then case " $ONLY " in *" $s "*) ;; *) continue;; esac; else [ $((idx % N)) -eq $((I - 1)) ] || continue; fi
  ids=$(python3 - "$s" <<'PY'
import sys,json
s=sys.argv[1]; P=s.split('-')[0]
m=json.load(open(f"/verif/seeded/{s}/meta.json"))
extra=json.load(open("/verif/tools/rerun_extra.json")).get(s,[])
ids=sorted(set([P]+m.get("caught_by",[])+extra))
print(" ".join(ids))
PY
)
  cd $LAB/repo && git checkout -q -- .
  if ! git apply --check $D/patch.diff 2>/dev/null; then echo "$s APPLY-FAIL"; continue; fi
  git apply $D/patch.diff
  cd $LAB; : > $D/checks.log
  for id in $ids; do
    out=$(VERIF_DIR=$LAB VERIF_OUT_DIR=$LAB/out ./check $id quick 2>&1); rc=$?
    n=$(echo "$out" | grep -oE "violations=[0-9]+" | tail -1)
    first=$(echo "$out" | grep -A1 "^VIOLATION" | grep -E "^  " | head -1 | cut -c1-260)
    [ -z "$first" ] && [ $rc -ne 0 ] && first=$(echo "$out" | grep -iE "machinery|error" | head -1 | cut -c1-200)
    echo "$id exit=$rc $n $first" >> $D/checks.log
  done
  cd $LAB/repo && git checkout -q -- .
  python3 - "$s" "$HC" "$RC" "$ids" <<'PY'
import sys,json,re
s,hc,rc,ids=sys.argv[1:5]
d=f"/verif/seeded/{s}"
caught=[];missed=[];other=[]
for l in open(f"{d}/checks.log"):
    m=re.match(r"(C\d\d) exit=(\d+) (violations=\d+)?\s*(.*)",l)
    if not m: continue
    e={"check":m.group(1),"exit":int(m.group(2)),"violations":m.group(3),"first":m.group(4).strip()}
    (caught if e["exit"]==1 else missed if e["exit"]==0 else other).append(e)
meta=json.load(open(f"{d}/meta.json"))
meta["checks_run"]=f"final re-run (harness {hc}, /repo {rc} + patch, in a seed lab): quick tier of {ids} = the check of the property it breaks, every check that caught it in an earlier full run of all 20, and the checks extended because of it (checks.log)"
meta["caught_by"]=[c["check"] for c in caught]
meta["not_caught_by"]=[c["check"] for c in missed]
meta["machinery_errors"]=other
meta["details"]=caught
json.dump(meta,open(f"{d}/meta.json","w"),indent=1,ensure_ascii=False)
print(s,"caught by",[c["check"] for c in caught],"missed",[c["check"] for c in missed],"machinery",[c["check"] for c in other])
PY
done
echo "lab $I done"
