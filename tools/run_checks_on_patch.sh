#!/bin/bash
# tools/run_checks_on_patch.sh <patch-file> [ids...]  -- apply to /repo's working tree, run the quick
# tier of the given checks (default: all), undo. One summary line per check.
set -u
P="$1"; shift
IDS="${*:-C01 C02 C03 C04 C05 C06 C07 C08 C09 C10 C11 C12 C13 C14 C15 C16 C17 C18 C19 C20}"
cd /repo || exit 2
if [ -n "$(git status --porcelain --untracked-files=no)" ]; then echo "/repo not clean"; exit 2; fi
git apply "$P" || { echo "cannot apply"; exit 2; }
cd /verif
for id in $IDS; do
  out=$(VERIF_OUT_DIR=/tmp/verif-scratch ./check $id ${TIER:-quick} 2>&1); rc=$?
  n=$(echo "$out" | grep -oE "violations=[0-9]+" | tail -1)
  first=$(echo "$out" | grep -A1 "^VIOLATION" | grep -E "^  " | head -1 | cut -c1-220)
  echo "$id exit=$rc $n $first"
done
cd /repo && git checkout -- .
