#!/usr/bin/env python3
"""Generate /verif/MANIFEST.json from the table below (kept in one place so that the manifest is
valid at all times). Run: python3 tools/gen_manifest.py"""
import json, subprocess, os

V = "/verif"
E1 = "E1 input-space explorer"
E1P = "E1' token-sequence explorer"
E2 = "E2 explicit-state search (stateright)"
E3 = "E3 controlled-scheduler explorer"

# id -> (engine, technique, level text, level note, design ref)
BUILT = {
 "C01": (E1, "bounded-exhaustive enumeration of (pattern, text, offset) executions of the real crate against a reference matcher",
         "Every pattern of EXH(k) and of the context x filler product, every text over the alphabet up to the length bound and every start offset is executed on the real crate and compared with the reference ordered-backtracking matcher; the verdict is 'no execution in this finite space diverges'. Nothing is claimed beyond the bounds.",
         "Trusted: the harness reference matcher (frmc-core/src/refsem.rs), rustc, regex-automata's behaviour inside delegates. Unbounded repeats with a nullable body are outside the reference's domain (skipped dynamically, counted).", "DESIGN.md §5 C01"),
 "C02": (E1, "bounded-exhaustive enumeration of executions against a reference matcher (capture groups of the winning path)",
         "Same finite space as C01 restricted to patterns with groups; whenever both sides match with the same span every capture group is compared with the reference's winning path.",
         "Trusted: harness reference matcher; rustc; regex-automata.", "DESIGN.md §5 C02"),
 "C15": (E1, "bounded-exhaustive enumeration of conditional patterns x texts against a reference matcher",
         "Every pattern with a conditional (both forms, at every nesting position up to the node bound, plus conditional contexts x fillers) x all texts x offsets, span and groups against the reference.",
         "Trusted: harness reference matcher; rustc; regex-automata.", "DESIGN.md §5 C15"),
}

PENDING = {}

def main():
    props = [json.loads(l) for l in open(f"{V}/properties.jsonl")]
    hooks = subprocess.check_output(["git", "-C", "/repo", "log", "--format=%h %s"]).decode().splitlines()
    hook_commits = [l.split()[0] for l in hooks if l.split(" ", 1)[1].startswith("verif hooks")]
    checks, na = [], []
    for p in props:
        pid = p["id"]
        if pid in BUILT:
            eng, tech, text, note, ref = BUILT[pid]
            checks.append({
                "property_id": pid,
                "quick_cmd": f"./check {pid} quick",
                "thorough_cmd": f"./check {pid} thorough",
                "evidence_file": f"/verif/evidence/{pid}.json",
                "replay_cmd_template": "./check --replay {path}",
                "engine": eng,
                "level_claimed": {"category": "model_checking", "text": text, "design_ref": ref},
                "level_note": note,
                "technique": tech,
            })
        else:
            na.append({"property_id": pid, "reason": PENDING.get(pid, "check not built yet in this revision of /verif (planned, see DESIGN.md §5)")})
    m = {
        "version": 1,
        "setup_cmd": "cd /verif/mc && CARGO_NET_OFFLINE=true cargo build --release --offline",
        "hooks": {
            "guard": "cargo feature verif_hooks (additive; never enabled by the repository's own test command)",
            "enable": "the harness crate depends on fancy-regex = { path = \"/repo\", features = [\"verif_hooks\"] }; every ./check run starts with `cargo build --release --offline` in /verif/mc, so checks always rebuild from /repo's working tree",
            "baseline_off_cmd": "cd /repo && cargo test --workspace --no-fail-fast --offline",
            "source_commits": hook_commits,
            "add_only": True,
        },
        "engines": [
            {"name": E1, "path": "/verif/mc/frmc/src/refsweep.rs", "serves_properties": [c["property_id"] for c in checks if c["engine"] == E1],
             "kind_free_text": "hand-written parallel bounded-exhaustive explorer: all pattern ASTs up to a node bound and context x filler products x all texts over a small alphabet up to a length bound x every start offset, each executed on the real crate"},
            {"name": E1P, "path": "/verif/mc/frmc/src/props/c06.rs", "serves_properties": [c["property_id"] for c in checks if c["engine"] == E1P],
             "kind_free_text": "all token sequences up to a length bound over a syntax-fragment vocabulary, sub-process isolated, allocator-capped"},
            {"name": E2, "path": "/verif/mc/frmc/src/statemodel.rs", "serves_properties": [c["property_id"] for c in checks if c["engine"] == E2],
             "kind_free_text": "stateright explicit-state search over the VM's real backtracking state (hook H3) with a whole-copy reference"},
            {"name": E3, "path": "/verif/mc/frmc-core/src/sched.rs", "serves_properties": [c["property_id"] for c in checks if c["engine"] == E3],
             "kind_free_text": "iterative preemption-bounded DFS over real OS threads with a baton, scheduling points at every VM instruction (hook H4)"},
        ],
        "checks": checks,
        "notes": "All checks: `./check <ID> quick|thorough` from /verif; exit 0 held, 1 VIOLATION (replay files under /verif/replays/<ID>/), 2 machinery error. Known findings: /verif/known_findings.json.",
        "not_applicable": na,
    }
    json.dump(m, open(f"{V}/MANIFEST.json", "w"), indent=1, ensure_ascii=False)
    print(f"checks={len(checks)} not_applicable={len(na)} hook_commits={hook_commits}")

main()
