#!/usr/bin/env python3
"""Generate /verif/MANIFEST.json from the table below (kept in one place so that the manifest is
valid at all times). Run: python3 tools/gen_manifest.py"""
import json, subprocess, os

V = "/verif"
E1 = "E1 input-space explorer"
E1P = "E1' token-sequence explorer"
E2 = "E2 explicit-state search (stateright)"
E3 = "E3 controlled-scheduler explorer"

# id -> (engine, technique, level text, level note, design ref)
T_REF = "Trusted: the harness reference matcher (frmc-core/src/refsem.rs), rustc, regex-automata's behaviour inside delegates."
BUILT = {
 "C01": (E1, "bounded-exhaustive enumeration of (pattern, text, offset) executions of the real crate against a reference matcher",
         "Every pattern of EXH(k) and of the context x filler product, every text over the alphabet up to the length bound and every start offset is executed on the real crate and compared with the reference ordered-backtracking matcher (atomic look-arounds); the verdict is 'no execution in this finite space diverges'. Plus sweeps that are exhaustive in one parameter the grammar keeps tiny: long regular texts (tall), and every repeat bound N up to 1100 / 4200 in delegated, VM-interpreted, look-behind and nullable-body forms with closed-form oracles. Plus a case-insensitive sweep: the engine runs (?i)P, the reference P with every letter as the class of both cases. Nothing is claimed beyond the bounds.",
         T_REF + " Cases in which the reference takes an empty optional iteration of an unbounded repeat (class F1) are outside its domain (skipped, counted).", "DESIGN.md §5 C01"),
 "C02": (E1, "bounded-exhaustive enumeration of executions against a reference matcher (capture groups of the winning path)",
         "Same finite space as C01 restricted to patterns with groups; whenever both sides match with the same span every capture group and the number of groups are compared with the reference's winning path. Plus the wide sweep: k = 4..32 empty groups inserted in front of every group of every pattern (many slots in one backtrack frame), original groups must keep their results.",
         T_REF, "DESIGN.md §5 C02"),
 "C03": (E1, "bounded-exhaustive metamorphic enumeration: every injection site of (?=) x texts x offsets, base versus variant on the real crate",
         "Every base pattern x every single injection site of the empty look-ahead (and the all-sites variant) x all texts x offsets: base and variant are both executed on the real crate and all groups compared; counters show how many injections moved the delegation boundary. Plus every repeat bound N (plain against (?=)-injected) and every cased Unicode scalar value under (?i).",
         "No reference model; trusted: (?=) matches the empty string everywhere. Divergences of class-F1 base patterns are attributed to the known finding KF-F1 by the class predicate.", "DESIGN.md §5 C03"),
 "C04": (E1, "bounded-exhaustive differential enumeration against the regex crate over the whole API",
         "Every common-syntax pattern up to the node bound x flag prefixes x inline flag atoms x all texts: every API (is_match, find, captures, iterators, split, splitn, replacen with templates/closure/NoExpand, group metadata) is compared value by value with regex::Regex built from the identical string. Plus every repeat bound N up to 1100 / 4200 (and width edges up to 70 000) and every cased Unicode scalar value under (?i) against the regex crate.",
         "Trusted oracle: the regex crate at the version of the repository's lock file. Known findings KF-F1 (class predicate, VM-compiled only) and KF-FLAG-SCOPE (hook switch H7) are attributed, everything else is a violation.", "DESIGN.md §5 C04"),
 "C05": (E1, "bounded-exhaustive enumeration of all search entry points over the unrestricted grammar and multi-byte texts (panic / span validity / termination oracle)",
         "Every pattern of the unrestricted grammar (self-referential backreferences, empty loops, \\K/\\G anywhere, conditionals) x texts mixing 1-4 byte characters x every offset x every public search entry point; oracle: returns normally, every span valid and on char boundaries, iterators end within len+2 items. Plus the wide sweep (up to 38 groups) with every span validated, an alternation-position family (a loop over 2..4 alternatives with the one nullable alternative in every position), and every cased Unicode scalar value through the iteration entry points under four ways of switching case-insensitivity on (spans on character boundaries).",
         "catch_unwind sees every panic; hook horizons (fuel, branch-stack cap) cut looping runs so that they are reported instead of waited for.", "DESIGN.md §5 C05"),
 "C06": (E1P, "exhaustive enumeration of token sequences up to a length bound (plus fixed probes and mutations), each compiled in an isolated worker under a counting allocator",
         "All token sequences up to length 3 (quick) / 4 (thorough, 8.6e7 strings) over a 99-token vocabulary plus depth/size probes and single-character mutations of valid patterns; oracle: Ok or Err, no panic (overflow checks on), error position <= length, long VM-compiled alternations and nested counted repeats among the probes, heap and wall-clock under explicit caps, the process survives.",
         "'Proportional' is checked against explicit caps (64 MiB + 4 KiB per byte, 5 s), not proved. Allocation failure / native stack overflow kill a worker process; the crashing input is identified by a careful-mode re-run.", "DESIGN.md §5 C06"),
 "C07": (E1, "bounded-exhaustive enumeration of (pattern, text, offset, backtrack limit) executions with exact thresholds read through a hook",
         "Every pattern of the unrestricted space x texts x offsets x limits {0,1,2,3,5,10,100,1e6} and B-1, B, B+1 (B = backtracks of the unlimited run, hook H1): limit results are the unlimited answer or BacktrackLimitExceeded, exact at the threshold; no limit error when the reference exploration is tiny; a tall pass over long regular texts and a large-count sweep over nullable bodies on tiny texts under default limits; instruction count and stack depth within a product bound.",
         "Hook H1 counters are incremented next to the crate's own backtrack counter. Termination is observed against horizons (fuel 4e5 instructions, branch stack 3e4).", "DESIGN.md §5 C07"),
 "C08": (E1, "bounded-exhaustive enumeration of complete next() histories of the real iterator against an iteration model (iterator state read back after every call)",
         "Every pattern (\\G and \\K at every position) x all texts: the real Matches iterator is driven to None and beyond; invariants on every history, equality with the iteration model over the reference matcher (or over the crate's own find_from_pos for class F1), error histories via backtrack limits 0,1,2; the iterator's internal state (last_end,last_match) is read from its Debug output after every call.",
         "Trusted: iteration model (frmc-core/src/itermodel.rs) and reference matcher.", "DESIGN.md §5 C08"),
 "C09": (E1, "bounded-exhaustive enumeration; mutual consistency of the entry points on every (pattern, text, offset)",
         "Every pattern of the unrestricted space x texts x offsets: is_match <=> find <=> captures, captures.get(0) == find, captures_iter spans == find_iter spans in order; also on long regular texts of 32+ bytes (tall pass); every captures_iter item equals, group by group, a fresh search from the item's start; no reference model involved.",
         "None beyond rustc.", "DESIGN.md §5 C09"),
 "C10": (E1, "bounded-exhaustive enumeration of split/splitn histories (limits 0..5, polled past the end) against a model over the crate's own find_iter",
         "Every pattern x all texts x limits 0..5: pieces are the gaps between consecutive find_iter matches, interleaving rebuilds the input, splitn yields min(n, pieces) items with the untouched remainder last; fusedness checked. Texts include 3- and 4-byte characters. Error histories under backtrack limits 0-2: split keeps one more piece than matches, exactly one Err. Every cased Unicode scalar value as a one-character separator built four ways (inline flag, RegexBuilder::case_insensitive on a plain and on a VM spelling) on every member of its fold orbit: split/splitn/replacen agree with restarted find_from_pos and the builds agree with each other.",
         "Oracle: split/splitn model over the crate's own find_iter (which C08 checks).", "DESIGN.md §5 C10"),
 "C11": (E1, "bounded-exhaustive enumeration of (pattern, text, limit, replacer) against a replacement model and a reference template expander",
         "Every pattern x texts x limits 0..3 x replacers (templates as &str/&String/Cow, NoExpand, closures): result equals the model (first n matches replaced by the reference expansion, other bytes copied), Borrowed iff no match, fast path == slow path, a limit error of any search is returned as Err (never swallowed), errors are Err not panics.",
         "Oracle: replacen model over the crate's own captures_iter; reference expander written from the documentation.", "DESIGN.md §5 C11"),
 "C12": (E1, "exhaustive enumeration of all templates up to a length bound x capture sets x expanders x entry points against a reference expander",
         "All templates up to length 5 (quick) / 7 (thorough, 1.1e8) over a 14-character alphabet x 4 capture sets x both expanders x 5 entry points (which must agree) - write_expansion also into a writer that takes two bytes per call and into a full destination (must be an error) - against an independent implementation of the documented syntax; every Unicode scalar value (all 1 112 064) directly after and inside a reference in four forms (which characters continue an identifier); escape round-trip; check() accepts only valid references.",
         "Oracle: frmc-core/src/expandref.rs, written from the doc comments only.", "DESIGN.md §5 C12"),
 "C13": (E1, "bounded-exhaustive enumeration; every static size fact checked against all lengths the reference matcher observes for that sub-expression over all texts",
         "Every pattern x every sub-expression: the all-paths span recorder of the reference matcher (over the public Expr tree) yields the set of lengths the node matches on all texts and starts; min_size / const_size (hook H2) must be sound; look-behinds showing two lengths must be rejected with LookBehindNotConst; look-behinds whose constant size is a large count N (every N up to 1100 / 4200) look back exactly N characters; a rejected look-behind stays rejected in hosts where it can never run; accepted look-behinds are compared with the reference on multi-byte texts.",
         "Observation is a lower approximation of 'can match', so the facts check cannot raise a false alarm. The parser-private \\n*$ atom of \\Z is exempt.", "DESIGN.md §5 C13"),
 "C14": (E1, "bounded-exhaustive metamorphic enumeration over builder options",
         "Every mixed-case pattern (inner (?-i:..)/(?i:..) groups, fancy and plain) x texts over {a,A,b,B} x offsets: case_insensitive(true) == (?i) prefix, false == unset, ample limits change nothing; tiny delegate_size_limit must fail fancy hosts whose delegated piece fails as a plain pattern. Option == inline flag is also compared through is_match, find_iter, split and replace; backtrack_limit(usize::MAX) changes nothing; every cased Unicode scalar value under the builder option; all contexts x fillers; the option combined with each other builder option (alone and all at once, set before and after it) is still exactly (?i)P.",
         "No reference model.", "DESIGN.md §5 C14"),
 "C15": (E1, "bounded-exhaustive enumeration of conditional patterns x texts against a reference matcher",
         "Every pattern with a conditional (both forms, at every nesting position up to the node bound, plus conditional contexts x fillers) x all texts x offsets, span and groups against the reference. Run twice: groups numbered, and groups named a, b, ... (names that collide with literals in expression conditions).",
         T_REF, "DESIGN.md §5 C15"),
 "C16": (E1, "bounded-exhaustive enumeration of patterns x group namings x texts; metadata against harness-side group count and name map",
         "Every pattern of the unrestricted space with every capture group independently unnamed / named x texts x offsets: captures_len, capture_names, Captures::len/iter/get/name consistent with the harness AST, for delegated and VM-compiled patterns alike. get(i) is None for i >= len including the indices at which a slot computation wraps (usize::MAX, 1<<63, ...). The Captures::iter() protocol is driven through count, nth past the end, skip and size_hint.",
         "None beyond rustc.", "DESIGN.md §5 C16"),
 "C17": (E1, "exhaustive enumeration of all strings up to a length bound over meta-characters and multi-byte characters, alone and in fancy hosts, against str::find",
         "All strings up to length 3 (quick) / 4 (thorough) over the 15 meta-characters plus 10 others, each escaped alone and inside 6 host patterns, searched in a family of texts: span equals str::find of the literal; escape borrows iff nothing needed escaping. Plus 1 065 long strings (ASCII stretch of every length 0..70, a multi-byte character, special characters) and a case-insensitive neighbour host.",
         "Oracle: str::find.", "DESIGN.md §5 C17"),
 "C18": (E3, "iterative preemption-bounded exhaustive exploration of thread interleavings of the real VM under a controlled scheduler (CHESS style)",
         "Every schedule with at most 2 (quick) / 3 (thorough) preemptions of 2-3 real OS threads searching concurrently through a shared &Regex and through clones, scheduling points before every VM instruction; every call must return its sequential result. Thread i starts with entry point i (captures / find_iter), so one thread iterates while another searches; the corpus includes \\G patterns and a 4-group delegate. A supplementary pass, labelled sampling and not counted as coverage, runs the same calls (and long texts) on 24 free-running threads plus the controlling thread in a child process; a child killed by a signal is reported as a violation. Plus the compile-time bound Send + Sync + Clone in a separate crate.",
         "Interleavings only at hook points; regex-automata's internal pool is trusted; an access pair between two consecutive hook points is not separated.", "DESIGN.md §5 C18"),
 "C19": (E1, "bounded-exhaustive enumeration of patterns x respelling transformers at every site x texts; parse-tree equality and identical search results",
         "Every pattern x T1-T6 respellings (free spacing, comments, named/relative references, flag scoping, escapes, possessive/atomic) at every applicable site: Expr::parse_tree results equal and captures identical on all texts and offsets.",
         "Whitespace is inserted only where the documentation defines it as insignificant. KF-FLAG-SCOPE attributed by hook switch H7.", "DESIGN.md §5 C19"),
 "C20": (E2, "explicit-state breadth-first search (stateright) over all operation sequences on the VM's real backtracking state against a whole-copy reference, plus a whole-copy shadow monitor inside real runs",
         "All sequences of {Save, Push, Pop, BeginAtomic, EndAtomic} up to depth 10 (2 slots x 2 values) / 7 (3x3) in the quick tier, deeper in the thorough tier, on the crate's real vm::State in lock-step with a whole-state-copy reference; dense, sparse (slot indices [0,64], [1,33,65], ...) and long-frame (10-40 slots with Burst operations) configurations; searched twice and counts compared; the same discipline monitored inside millions of real vm::run executions; the observable side of a commit (an atomic construct lowered without any cut leaves a consistent state): every context with an atomic group, possessive quantifier or look-around x fillers x texts over {a,b} up to length 5/6 against the reference semantics.",
         "The VmState wrapper (hook H3) forwards to the private State methods without logic of its own.", "DESIGN.md §5 C20"),
}

PENDING = {}

def main():
    props = [json.loads(l) for l in open(f"{V}/properties.jsonl")]
    hooks = subprocess.check_output(["git", "-C", "/repo", "log", "--format=%h %s"]).decode().splitlines()
    hook_commits = [l.split()[0] for l in hooks if l.split(" ", 1)[1].startswith(("verif hooks", "verif_hooks"))]
    checks, na = [], []
    for p in props:
        pid = p["id"]
        if pid in BUILT:
            eng, tech, text, note, ref = BUILT[pid]
            checks.append({
                "property_id": pid,
                "quick_cmd": f"./check {pid} quick",
                "thorough_cmd": f"./check {pid} thorough",
                "evidence_file": f"/verif/evidence/{pid}.json",
                "replay_cmd_template": "./check --replay {path}",
                "engine": eng,
                "level_claimed": {"category": "model_checking", "text": text, "design_ref": ref},
                "level_note": note,
                "technique": tech,
            })
        else:
            na.append({"property_id": pid, "reason": PENDING.get(pid, "check not built yet in this revision of /verif (planned, see DESIGN.md §5)")})
    m = {
        "version": 1,
        "setup_cmd": "cd /verif/mc && CARGO_NET_OFFLINE=true cargo build --release --offline",
        "hooks": {
            "guard": "cargo feature verif_hooks (additive; never enabled by the repository's own test command)",
            "enable": "the harness crate depends on fancy-regex = { path = \"/repo\", features = [\"verif_hooks\"] }; every ./check run starts with `cargo build --release --offline` in /verif/mc, so checks always rebuild from /repo's working tree",
            "baseline_off_cmd": "cd /repo && cargo test --workspace --no-fail-fast --offline",
            "source_commits": hook_commits,
            "add_only": True,
        },
        "engines": [
            {"name": E1, "path": "/verif/mc/frmc/src/refsweep.rs", "serves_properties": [c["property_id"] for c in checks if c["engine"] == E1],
             "kind_free_text": "hand-written parallel bounded-exhaustive explorer: all pattern ASTs up to a node bound and context x filler products x all texts over a small alphabet up to a length bound x every start offset, each executed on the real crate"},
            {"name": E1P, "path": "/verif/mc/frmc/src/props/c06.rs", "serves_properties": [c["property_id"] for c in checks if c["engine"] == E1P],
             "kind_free_text": "all token sequences up to a length bound over a syntax-fragment vocabulary, sub-process isolated, allocator-capped"},
            {"name": E2, "path": "/verif/mc/frmc/src/statemodel.rs", "serves_properties": [c["property_id"] for c in checks if c["engine"] == E2],
             "kind_free_text": "stateright explicit-state search over the VM's real backtracking state (hook H3) with a whole-copy reference"},
            {"name": E3, "path": "/verif/mc/frmc-core/src/sched.rs", "serves_properties": [c["property_id"] for c in checks if c["engine"] == E3],
             "kind_free_text": "iterative preemption-bounded DFS over real OS threads with a baton, scheduling points at every VM instruction (hook H4)"},
        ],
        "checks": checks,
        "notes": "All checks: `./check <ID> quick|thorough` from /verif; exit 0 held, 1 VIOLATION (replay files under /verif/replays/<ID>/), 2 machinery error. Known findings: /verif/known_findings.json.",
        "not_applicable": na,
    }
    json.dump(m, open(f"{V}/MANIFEST.json", "w"), indent=1, ensure_ascii=False)
    print(f"checks={len(checks)} not_applicable={len(na)} hook_commits={hook_commits}")

main()
