#!/usr/bin/env python3
"""Fill 'needs_to_manifest' / 'change' in every /verif/seeded/*/meta.json from the table below and
print the markdown table for DESIGN.md section 10.6."""
import json, glob, os

INFO = {
 "C01-1": ("analyze.rs: alternation const-size check evaluated after the running minimum is updated (shrinking alternations `ab|a` judged constant-size)", "a shrinking alternation next to a hard construct (delegated as one non-backtrackable piece) or inside a look-behind, and a text where the first branch matches but the continuation fails"),
 "C01-2": ("compile.rs: `let hard = hard | info.hard` dropped in compile_repeat", "a counted repeat (min >= 2) with a hard body ending in a variable-size easy tail, placed last inside an atomic group / possessive / look-around, and a text that forces an earlier iteration to be redone"),
 "C02-1": ("vm.rs backtrack_cut rewritten over a BTreeMap with `insert` (keeps the newest old value per slot instead of the oldest)", "a slot saved in two discarded frames inside an atomic construct, then a backtrack past the committed group"),
 "C02-2": ("vm.rs Delegate writes 'unset' for groups that did not participate (un-fix of D1)", "a delegated optional group inside an interpreted loop, participating in an early iteration but not the last"),
 "C03-1": ("analyze.rs: same two-line swap as C01-1 (independently found)", "as C01-1; shows as base vs (?=)-injected variant"),
 "C03-2": ("compile.rs: same dropped line as C01-2 (independently found)", "as C01-2"),
 "C04-1": ("analyze.rs: same two-line swap as C01-1 (independently found)", "`\\b`/`\\B` next to a shrinking alternation: `(ab|a)\\B` on \"ab\""),
 "C04-2": ("lib.rs CaptureMatches::next steps `mat.end + 1` instead of next_utf8", "captures_iter / replace on a VM pattern with an empty match directly before a 2- or 4-byte character"),
 "C05-1": ("lib.rs next_utf8 rewritten with char_indices().nth(1); wrong when exactly one multi-byte character is left", "an iterating call on a VM pattern with an empty match directly in front of a final multi-byte character"),
 "C05-2": ("\\K start clamps moved from vm.rs End into find_from_pos only (captures path forgotten)", "\\K inside a look-around plus a captures-based call using group 0"),
 "C06-1": ("parse.rs: nesting-depth guard moved after the early returns for (?: (?i: (?(", "150+ nested `(?:` / `(?i:` / `(?(`: native stack overflow"),
 "C06-2": ("analyze.rs: conditional min size computed with plain `+`", "a conditional with a consuming condition and a branch whose size saturated to usize::MAX"),
 "C07-1": ("vm.rs: backtrack count and limit check moved before the empty-stack test", "a no-match search and a limit exactly at the number of backtracks it needs"),
 "C07-2": ("compile.rs: empty-iteration guard only for lo <= 1", "`e{2,}` over a nullable body in a VM-compiled context: loops until StackOverflow"),
 "C08-1": ("lib.rs: last_match only remembered for non-empty matches", "a \\G pattern that can match empty, first match empty"),
 "C08-2": ("lib.rs: after an Err, last_end = len instead of len + 1", "a search error under a tiny backtrack limit followed by a pattern that matches at the end of the text"),
 "C09-1": ("lib.rs CaptureMatches::next loops instead of recursing, flags computed once", "\\G pattern that can match empty; non-empty match followed by an empty-only position"),
 "C09-2": ("\\K start>=pos cap moved from vm.rs End into find_from_pos only", "\\K inside a look-behind, search from an offset > 0, captures vs find"),
 "C10-1": ("lib.rs Split::next early-out when next_start >= len", "split of the empty text by a pattern that matches the empty string"),
 "C10-2": ("lib.rs Split drives find_from_pos itself (loses the skipped-empty-match flag)", "a \\G pattern that can match empty, split/splitn"),
 "C11-1": ("same change as C09-1 (independently found)", "\\G pattern with empty matches and a slow-path replacer (closure or $ template)"),
 "C11-2": ("replacer.rs no_expansion: `$$` no longer recognised as needing expansion", "a string template whose only `$`s are `$$` escapes, through replace*"),
 "C12-1": ("expand.rs: `$<digits>_` read as a group number plus a literal underscore", "default expander, `$1_`"),
 "C12-2": ("expand.rs escape rewritten with split_terminator: drops a trailing substitution character", "escape of a text ending in `$` (or `\\` for the Python expander)"),
 "C13-1": ("analyze.rs: conditional const_size loses the condition's own const_size", "a conditional with a consuming variable-size condition whose branches are constant-size, e.g. inside a look-behind: `(?<=(?(a|bc)d|xy))` compiles"),
 "C13-2": ("analyze.rs: alternation const_size assigned instead of accumulated", "three or more alternatives with a differing middle size: `(?<=a|bc|d)x`"),
 "C14-1": ("compile.rs: VM delegates keep the builder's case-insensitive flag (wrapped path still clears it)", "builder option + VM pattern + a case-sensitive part that lands inside a delegate: `(?=.)a(?-i:b)`"),
 "C14-2": ("vm.rs: backtrack limit only compared every 256 backtracks", "a small explicit limit and a search needing more backtracks than the limit but fewer than 256"),
 "C15-1": ("parse.rs: groups referenced only by a condition are no longer marked as back-referenced (not hard)", "`((a)|.)(?(2)x|y)` on \"ay\": the tested group sits inside a delegated piece that would have to be backtracked into"),
 "C15-2": ("compile.rs: atomic_depth zeroed while a look-around body is compiled", "a conditional directly inside a positive hard look-around that takes its false branch, then a later failure that needs the look-around to stay atomic"),
 "C16-1": ("lib.rs to_str: nested repeat wrapped in `(` instead of `(?:`", "a fully delegated pattern with a quantified group whose body is exactly one quantified atom: `(?:a+)?(b)`"),
 "C16-2": ("parse.rs: (?P<name> registers its name when the group closes (curr_group has moved on)", "`(?P<n>` with a capturing group nested inside"),
 "C17-1": ("lib.rs is_special as a binary search over a table that is unsorted at `\\`", "a string containing a backslash"),
 "C17-2": ("lib.rs escape single pass treating `last == 0` as 'nothing found'", "a string whose only special character is its first character"),
 "C18-1": ("vm.rs: delegate capture-slot buffer hoisted into the instruction behind a per-operation Mutex", "two threads executing the same Delegate (with groups) of one shared Regex; the race is inside one VM instruction"),
 "C18-2": ("vm.rs: backtrack counter moved into Prog as Arc<AtomicUsize> (shared by clones)", "overlapping searches on one Regex (or clones) whose combined backtracks exceed the limit, or a limit-exceeding search next to cheap ones"),
 "C19-1": ("parse.rs: `X{n}+` loses its atomic group when lo == hi", "exact-count possessive over an item with an alternation or inner quantifier"),
 "C19-2": ("parse.rs: \\A and \\z obey the multi-line flag", "`(?m)` in scope, \\A / \\z spelling, a text with an interior line boundary"),
 "C20-1": ("vm.rs backtrack_cut drops an undo entry whose old value equals the current value without marking the slot as seen", "a slot going X -> Y -> X across two surviving levels inside one atomic group, then a backtrack past it"),
 "C20-2": ("vm.rs: pop applies the undo entries oldest-first AND backtrack_cut gains a one-branch fast path without de-duplication (each harmless alone)", "a branch older than the atomic group, the same slot written before and after the first inner branch, exactly one inner branch alive at the commit"),
}

rows = []
for d in sorted(glob.glob("/verif/seeded/*/")):
    sid = os.path.basename(d.rstrip("/"))
    mp = d + "meta.json"
    if not os.path.exists(mp):
        continue
    m = json.load(open(mp))
    if sid in INFO:
        m["change"], m["needs_to_manifest"] = INFO[sid]
    json.dump(m, open(mp, "w"), indent=1, ensure_ascii=False)
    caught = ", ".join(m.get("caught_by", [])) or "**none**"
    rows.append(f"| {sid} | {m.get('change','')} | {m.get('needs_to_manifest','')} | {caught} |")
print("| seed | change | needs | caught by (quick tier) |\n|---|---|---|---|")
print("\n".join(rows))
