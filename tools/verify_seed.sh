#!/bin/bash
# tools/verify_seed.sh <seed-dir>   (seed-dir contains patch.diff and demo.rs)
# Confirms, in a scratch worktree of /repo: the patch applies, the unedited suite passes with it,
# the demo fails with it and passes without it. Prints one line per step; exit 0 iff all hold.
set -u
D="$1"
WT=/tmp/wt-verify
cd /repo || exit 2
if [ ! -d "$WT" ]; then git worktree add -q --detach "$WT" HEAD || exit 2; fi
cd "$WT" && git checkout -q --detach "$(git -C /repo rev-parse HEAD)" && git checkout -q -- . && rm -f tests/seed_demo.rs
ok=1
if ! git apply --check "$D/patch.diff" 2>/dev/null; then echo "APPLY: FAIL"; exit 1; fi
echo "APPLY: ok"
# demo without patch
cp "$D/demo.rs" tests/seed_demo.rs
if cargo test --offline --test seed_demo >/tmp/verify_demo_clean.log 2>&1; then echo "DEMO-WITHOUT-PATCH: passes"; else echo "DEMO-WITHOUT-PATCH: FAILS (bad seed)"; ok=0; fi
git apply "$D/patch.diff"
if cargo test --offline --test seed_demo >/tmp/verify_demo_patched.log 2>&1; then echo "DEMO-WITH-PATCH: passes (bad seed)"; ok=0; else
  if grep -q "error\[E\|could not compile" /tmp/verify_demo_patched.log; then echo "DEMO-WITH-PATCH: does not compile (bad seed)"; ok=0; else echo "DEMO-WITH-PATCH: fails"; fi
fi
rm -f tests/seed_demo.rs
res=$(cargo test --workspace --no-fail-fast --offline 2>&1 | grep -E "^test result" | awk '{p+=$4; f+=$6} END {print p" passed "f" failed"}')
echo "SUITE-WITH-PATCH: $res"
case "$res" in "194 passed 0 failed") ;; *) ok=0;; esac
git checkout -q -- .
[ $ok = 1 ] && { echo "SEED OK"; exit 0; } || { echo "SEED REJECTED"; exit 1; }
