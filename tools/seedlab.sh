#!/bin/bash
# tools/seedlab.sh setup            -- build a private lab: /tmp/seedlab/{repo (worktree of /repo HEAD), mc (copy of the harness pointing at it)}
# tools/seedlab.sh run <PROP> <n> [ids...] -- verify seed /tmp/seed-out/<PROP>/<n> and run the quick checks against it inside the lab;
#                                      results are filed under /verif/seeded/<PROP>-<n>/
# The lab keeps /repo and /verif/mc free for other work while seeds are being processed.
set -u
LAB=${LAB:-/tmp/seedlab}
case "${1:-}" in
setup)
  rm -rf $LAB/mc $LAB/check; mkdir -p $LAB/out
  [ -d $LAB/repo ] || git -C /repo worktree add -q --detach $LAB/repo HEAD
  (cd $LAB/repo && git checkout -q --detach "$(git -C /repo rev-parse HEAD)" && git checkout -q -- .)
  rsync -a --exclude target /verif/mc/ $LAB/mc/
  sed -i "s|path = \"/repo\"|path = \"$LAB/repo\"|" $LAB/mc/frmc/Cargo.toml $LAB/mc/c18static/Cargo.toml
  cp /verif/check $LAB/check; cp /verif/known_findings.json $LAB/known_findings.json
  (cd $LAB/mc && cargo build --release --offline 2>&1 | tail -1)
  ;;
run)
  P="$2"; N="$3"; shift 3
  IDS="${*:-C01 C02 C03 C04 C05 C06 C07 C08 C09 C10 C11 C12 C13 C14 C15 C16 C17 C18 C19 C20}"
  SRC=/tmp/seed-out/$P/$N; DST=/verif/seeded/$P-$N
  # a seed already filed under /verif/seeded can be re-run from there (e.g. in a later session)
  [ -f "$SRC/patch.diff" ] || SRC=$DST
  [ -f "$SRC/patch.diff" ] || { echo "no seed at $SRC"; exit 2; }
  mkdir -p "$DST"
  if [ "$SRC" != "$DST" ]; then cp "$SRC/patch.diff" "$DST/"; cp "$SRC/demo.rs" "$SRC/notes.md" "$DST/" 2>/dev/null; for extra in "$SRC"/*.diff; do cp -n "$extra" "$DST/" 2>/dev/null; done; fi
  cd $LAB/repo && git checkout -q -- . && rm -f tests/seed_demo.rs
  {
    if ! git apply --check "$SRC/patch.diff" 2>/dev/null; then echo "APPLY: FAIL"; echo "SEED REJECTED"; else
    echo "APPLY: ok"; ok=1
    cp "$SRC/demo.rs" tests/seed_demo.rs
    if cargo test --offline --test seed_demo >$LAB/demo_clean.log 2>&1; then echo "DEMO-WITHOUT-PATCH: passes"; else echo "DEMO-WITHOUT-PATCH: FAILS (bad seed)"; ok=0; fi
    git apply "$SRC/patch.diff"
    if cargo test --offline --test seed_demo >$LAB/demo_patched.log 2>&1; then echo "DEMO-WITH-PATCH: passes (bad seed)"; ok=0
    elif grep -q "error\[E\|could not compile" $LAB/demo_patched.log; then echo "DEMO-WITH-PATCH: does not compile (bad seed)"; ok=0; else echo "DEMO-WITH-PATCH: fails"; fi
    rm -f tests/seed_demo.rs
    res=$(cargo test --workspace --no-fail-fast --offline 2>&1 | grep -E "^test result" | awk '{p+=$4; f+=$6} END {print p" passed "f" failed"}')
    echo "SUITE-WITH-PATCH: $res"
    case "$res" in "194 passed 0 failed") ;; *) ok=0;; esac
    [ $ok = 1 ] && echo "SEED OK" || echo "SEED REJECTED"
    fi
  } > "$DST/verify.log" 2>&1
  cat "$DST/verify.log"
  if ! grep -q "SEED OK" "$DST/verify.log"; then git checkout -q -- .; exit 1; fi
  # patch is applied now: run the checks of the lab's harness copy
  cd $LAB
  : > "$DST/checks.log"
  for id in $IDS; do
    out=$(VERIF_DIR=$LAB VERIF_OUT_DIR=$LAB/out ./check $id quick 2>&1); rc=$?
    n=$(echo "$out" | grep -oE "violations=[0-9]+" | tail -1)
    first=$(echo "$out" | grep -A1 "^VIOLATION" | grep -E "^  " | head -1 | cut -c1-260)
    [ -z "$first" ] && [ $rc -ne 0 ] && first=$(echo "$out" | grep -iE "machinery|error" | head -1 | cut -c1-200)
    echo "$id exit=$rc $n $first" | tee -a "$DST/checks.log"
    # STOP_AT_FIRST=1: stop at the first check that reports the change (checks.log then lists only the checks run)
    [ $rc -eq 1 ] && [ -n "${STOP_AT_FIRST:-}" ] && break
  done
  cd $LAB/repo && git checkout -q -- .
  python3 - "$P" "$N" <<'PY'
import sys,json,re
P,N=sys.argv[1],sys.argv[2]
d=f"/verif/seeded/{P}-{N}"
caught=[]; missed=[]; other=[]
for l in open(f"{d}/checks.log"):
    m=re.match(r"(C\d\d) exit=(\d+) (violations=\d+)?\s*(.*)",l)
    if not m: continue
    e={"check":m.group(1),"exit":int(m.group(2)),"violations":m.group(3),"first":m.group(4).strip()}
    (caught if e["exit"]==1 else missed if e["exit"]==0 else other).append(e)
meta={"breaks_property":P,"seed":f"{P}-{N}","origin":"independent sub-agent given only the property text and a scratch worktree of /repo; nothing from /verif",
 "needs_to_manifest":"see notes.md (written by the sub-agent)",
 "confirmed":{"patch_applies":True,"suite_with_patch":"194 passed 0 failed (172 tests + 22 doctests)","demo_with_patch":"fails","demo_without_patch":"passes","how":"tools/seedlab.sh run, in a scratch worktree of /repo (verify.log)"},
 "checks_run":"quick tier of every check, harness copy built against the patched worktree (checks.log)",
 "caught_by":[c["check"] for c in caught],"not_caught_by":[c["check"] for c in missed],"machinery_errors":other,"details":caught}
json.dump(meta,open(f"{d}/meta.json","w"),indent=1,ensure_ascii=False)
print("==> caught by:",[c["check"] for c in caught], "machinery:",[c["check"] for c in other])
PY
  ;;
*) echo "usage: seedlab.sh setup | run <PROP> <n> [ids]"; exit 2;;
esac
