#!/bin/bash
# tools/with_patch.sh <patch-file | -R:<commit>> <check-id> [tier]   -- apply a change to /repo's
# working tree, run one check, undo the change. Prints the check's last lines and exit code.
set -u
P="$1"; ID="$2"; TIER="${3:-quick}"
cd /repo || exit 2
if [ -n "$(git status --porcelain --untracked-files=no)" ]; then echo "/repo not clean"; exit 2; fi
if [[ "$P" == -R:* ]]; then
  git show "${P#-R:}" | git apply -R || { echo "cannot reverse-apply"; exit 2; }
else
  git apply "$P" || { echo "cannot apply"; exit 2; }
fi
cd /verif && VERIF_OUT_DIR=/tmp/verif-scratch ./check "$ID" "$TIER" 2>&1 | grep -vE "^  " | tail -6
rc=${PIPESTATUS[0]}
cd /repo && git checkout -- . 
echo "exit=$rc"
