//! E3: a controlled scheduler with iterative preemption bounding (CHESS style) over real OS
//! threads. Exactly one thread holds the baton at any time; at every scheduling point the holder
//! either continues (choice 0) or hands the baton to another enabled thread. Enabled threads are
//! listed in canonical order: the running thread first (if still enabled), then ascending ids.

use std::sync::{Arc, Condvar, Mutex};
use std::time::Duration;

#[derive(Clone, Debug, PartialEq, Eq)]
pub struct Point {
    /// enabled threads in canonical order
    pub enabled: Vec<usize>,
    /// index into `enabled` that was chosen
    pub choice: usize,
    /// the thread that was running when the point was reached is still enabled
    pub running_enabled: bool,
    pub site: u32,
}

#[derive(Debug, Default)]
struct St {
    current: Option<usize>,
    finished: Vec<bool>,
    prefix: Vec<usize>,
    trace: Vec<Point>,
    /// a replayed prefix asked for a choice that does not exist: machinery error
    diverged: Option<String>,
    aborted: bool,
}

#[derive(Clone)]
pub struct Scheduler {
    inner: Arc<(Mutex<St>, Condvar)>,
    n: usize,
}

pub struct Trace {
    pub points: Vec<Point>,
    pub diverged: Option<String>,
    pub deadlock: bool,
}

impl Scheduler {
    pub fn new(n: usize, prefix: Vec<usize>) -> Scheduler {
        let st = St { current: None, finished: vec![false; n], prefix, trace: Vec::new(), diverged: None, aborted: false };
        Scheduler { inner: Arc::new((Mutex::new(st), Condvar::new())), n }
    }

    fn choose(st: &mut St, n: usize, running: Option<usize>, site: u32) -> Option<usize> {
        let mut enabled = Vec::new();
        let running_enabled = matches!(running, Some(r) if !st.finished[r]);
        if let Some(r) = running {
            if !st.finished[r] {
                enabled.push(r);
            }
        }
        for t in 0..n {
            if !st.finished[t] && Some(t) != running {
                enabled.push(t);
            }
        }
        if enabled.is_empty() {
            return None;
        }
        let step = st.trace.len();
        let choice = if step < st.prefix.len() { st.prefix[step] } else { 0 };
        if choice >= enabled.len() {
            st.diverged = Some(format!("step {}: choice {} but only {} enabled", step, choice, enabled.len()));
            st.aborted = true;
            return None;
        }
        let chosen = enabled[choice];
        st.trace.push(Point { enabled, choice, running_enabled, site });
        Some(chosen)
    }

    /// Called by the harness before the threads start: picks the first thread to run.
    pub fn start(&self) {
        let (m, cv) = &*self.inner;
        let mut st = m.lock().unwrap();
        let c = Self::choose(&mut st, self.n, None, 0);
        st.current = c;
        cv.notify_all();
    }

    fn wait_for_baton(&self, t: usize) -> bool {
        let (m, cv) = &*self.inner;
        let mut st = m.lock().unwrap();
        loop {
            if st.aborted {
                return false;
            }
            if st.current == Some(t) {
                return true;
            }
            let (g, _to) = cv.wait_timeout(st, Duration::from_secs(30)).unwrap();
            st = g;
        }
    }

    /// Called by thread `t` before it does anything.
    pub fn thread_start(&self, t: usize) {
        self.wait_for_baton(t);
    }

    /// A scheduling point of the running thread `t`.
    pub fn point(&self, t: usize, site: u32) {
        let (m, cv) = &*self.inner;
        {
            let mut st = m.lock().unwrap();
            if st.aborted || st.current != Some(t) {
                return;
            }
            let c = Self::choose(&mut st, self.n, Some(t), site);
            match c {
                Some(c) if c == t => return,
                Some(c) => {
                    st.current = Some(c);
                    cv.notify_all();
                }
                None => {
                    cv.notify_all();
                    return;
                }
            }
        }
        self.wait_for_baton(t);
    }

    /// Called by thread `t` when its body is done (also on panic).
    pub fn thread_finish(&self, t: usize) {
        let (m, cv) = &*self.inner;
        let mut st = m.lock().unwrap();
        st.finished[t] = true;
        if st.current == Some(t) || st.current.is_none() {
            let c = Self::choose(&mut st, self.n, Some(t), 0xffff_ffff);
            st.current = c;
        }
        cv.notify_all();
    }

    pub fn trace(&self) -> Trace {
        let (m, _) = &*self.inner;
        let st = m.lock().unwrap();
        Trace { points: st.trace.clone(), diverged: st.diverged.clone(), deadlock: false }
    }
}

/// Number of preemptions in points[..upto]
pub fn preemptions(points: &[Point], upto: usize) -> usize {
    points[..upto].iter().filter(|p| p.running_enabled && p.choice != 0).count()
}

/// Iterative context bounding: run every schedule with at most `bound` preemptions.
/// `run(prefix)` executes one schedule (replaying `prefix`, then always choice 0) and returns its
/// trace; `Err` aborts the exploration (machinery error). Returns the number of schedules run.
pub fn explore(
    bound: usize,
    max_schedules: usize,
    run: &mut dyn FnMut(&[usize]) -> Result<Trace, String>,
) -> Result<(usize, bool), String> {
    let mut stack: Vec<Vec<usize>> = vec![Vec::new()];
    let mut count = 0usize;
    let mut capped = false;
    while let Some(prefix) = stack.pop() {
        if count >= max_schedules {
            capped = true;
            break;
        }
        let tr = run(&prefix)?;
        count += 1;
        if let Some(d) = tr.diverged {
            return Err(format!("replay diverged: {} (prefix {:?})", d, prefix));
        }
        let choices: Vec<usize> = tr.points.iter().map(|p| p.choice).collect();
        // children in reverse so that the DFS visits lower alternatives first
        let mut children = Vec::new();
        for i in prefix.len()..tr.points.len() {
            let p = &tr.points[i];
            let mut cost = preemptions(&tr.points, i);
            if p.running_enabled {
                cost += 1;
            }
            if cost > bound {
                continue;
            }
            for alt in 1..p.enabled.len() {
                let mut c = choices[..i].to_vec();
                c.push(alt);
                children.push(c);
            }
        }
        children.reverse();
        stack.extend(children);
    }
    Ok((count, capped))
}

/// Parallel version of `explore`: the same set of schedules (all with at most `bound`
/// preemptions), explored by `workers` threads from a shared work list of choice prefixes.
pub fn explore_par(
    bound: usize,
    max_schedules: usize,
    workers: usize,
    run: &(dyn Fn(usize, &[usize]) -> Result<Trace, String> + Sync),
) -> Result<(usize, bool), String> {
    use std::sync::atomic::{AtomicBool, AtomicUsize, Ordering};
    let work: Mutex<Vec<Vec<usize>>> = Mutex::new(vec![Vec::new()]);
    let active = AtomicUsize::new(0);
    let count = AtomicUsize::new(0);
    let capped = AtomicBool::new(false);
    let error: Mutex<Option<String>> = Mutex::new(None);
    std::thread::scope(|s| {
        for wid in 0..workers.max(1) {
            let (work, active, count, capped, error) = (&work, &active, &count, &capped, &error);
            s.spawn(move || loop {
                let job = {
                    let mut w = work.lock().unwrap();
                    let j = w.pop();
                    if j.is_some() {
                        active.fetch_add(1, Ordering::SeqCst);
                    }
                    j
                };
                let prefix = match job {
                    Some(p) => p,
                    None => {
                        if active.load(Ordering::SeqCst) == 0 || error.lock().unwrap().is_some() {
                            break;
                        }
                        std::thread::sleep(Duration::from_micros(200));
                        continue;
                    }
                };
                if error.lock().unwrap().is_some() {
                    active.fetch_sub(1, Ordering::SeqCst);
                    break;
                }
                if count.fetch_add(1, Ordering::SeqCst) >= max_schedules {
                    count.fetch_sub(1, Ordering::SeqCst);
                    capped.store(true, Ordering::SeqCst);
                    work.lock().unwrap().clear();
                    active.fetch_sub(1, Ordering::SeqCst);
                    continue;
                }
                match run(wid, &prefix) {
                    Err(e) => {
                        *error.lock().unwrap() = Some(e);
                    }
                    Ok(tr) => {
                        if let Some(d) = tr.diverged {
                            *error.lock().unwrap() = Some(format!("replay diverged: {} (prefix {:?})", d, prefix));
                        } else {
                            let choices: Vec<usize> = tr.points.iter().map(|p| p.choice).collect();
                            let mut children = Vec::new();
                            for i in prefix.len()..tr.points.len() {
                                let p = &tr.points[i];
                                let mut cost = preemptions(&tr.points, i);
                                if p.running_enabled {
                                    cost += 1;
                                }
                                if cost > bound {
                                    continue;
                                }
                                for alt in 1..p.enabled.len() {
                                    let mut c = choices[..i].to_vec();
                                    c.push(alt);
                                    children.push(c);
                                }
                            }
                            if !children.is_empty() && !capped.load(Ordering::SeqCst) {
                                work.lock().unwrap().extend(children);
                            }
                        }
                    }
                }
                active.fetch_sub(1, Ordering::SeqCst);
            });
        }
    });
    if let Some(e) = error.into_inner().unwrap() {
        return Err(e);
    }
    Ok((count.load(std::sync::atomic::Ordering::SeqCst), capped.load(std::sync::atomic::Ordering::SeqCst)))
}
