//! Neutral IR for the reference matcher. Two front-ends build it: the harness AST (here) and
//! `fancy_regex::Expr` (in the `frmc` crate, used by C13 only).

use crate::ast::{LookKind, Mode, Node, A};

pub type Id = usize;

#[derive(Clone, Debug)]
pub enum CharPred {
    Lit(char),
    Any,
    AnyNoNl,
    Set(Vec<char>, bool),
    Word,
    Digit,
    /// opaque one-character class evaluated with the regex crate (`Expr::Delegate`, size 1)
    Opaque(regex::Regex),
}

impl CharPred {
    #[inline]
    pub fn matches(&self, c: char) -> bool {
        match self {
            CharPred::Lit(l) => *l == c,
            CharPred::Any => true,
            CharPred::AnyNoNl => c != '\n',
            CharPred::Set(cs, neg) => cs.contains(&c) != *neg,
            CharPred::Word => c.is_alphanumeric() || c == '_',
            CharPred::Digit => c.is_ascii_digit(),
            CharPred::Opaque(re) => {
                let mut b = [0u8; 4];
                re.is_match(c.encode_utf8(&mut b))
            }
        }
    }
}

#[derive(Clone, Debug)]
pub enum Ir {
    Empty,
    Char(CharPred),
    Assert(A),
    KeepOut,
    ContG,
    Backref(usize),
    CondExists(usize),
    Group(usize, Id),
    Atomic(Id),
    LookAhead { neg: bool, body: Id },
    /// per top-level alternative: (body, fixed length in characters; None = variable length:
    /// the true look-behind semantics "some start position matches up to exactly here", used
    /// only to *observe* lengths of patterns the engine must reject)
    LookBehind { neg: bool, alts: Vec<(Id, Option<usize>)> },
    Repeat { child: Id, lo: u32, hi: Option<u32>, greedy: bool },
    Concat(Vec<Id>),
    Alt(Vec<Id>),
    CondGroup { group: usize, yes: Id, no: Id },
    Cond { cond: Id, yes: Id, no: Id },
    /// opaque zero-or-more-width atom evaluated with the regex crate on the suffix
    /// (`Expr::Delegate` with size 0, i.e. `\n*$`)
    OpaqueSuffix(regex::Regex),
}

#[derive(Clone, Debug, Default)]
pub struct Prog {
    pub nodes: Vec<Ir>,
    pub root: Id,
    pub n_groups: usize,
    pub lenient: bool,
}

#[derive(Debug, Clone, PartialEq, Eq)]
pub enum BuildError {
    /// a look-behind alternative without a fixed length: the pattern must be rejected
    LookBehindNotConst,
    /// construct outside the reference semantics (flags, raw atoms, holes)
    Unsupported(&'static str),
}

impl Prog {
    pub fn add(&mut self, n: Ir) -> Id {
        self.nodes.push(n);
        self.nodes.len() - 1
    }

    /// fixed length in characters, if the node always matches exactly that many characters
    pub fn fixed_len(&self, id: Id) -> Option<usize> {
        match &self.nodes[id] {
            Ir::Empty | Ir::Assert(_) | Ir::KeepOut | Ir::ContG | Ir::CondExists(_) | Ir::LookAhead { .. } | Ir::LookBehind { .. } => {
                Some(0)
            }
            Ir::Char(_) => Some(1),
            Ir::Backref(_) => None,
            Ir::Group(_, c) | Ir::Atomic(c) => self.fixed_len(*c),
            Ir::Repeat { child, lo, hi, .. } => {
                if Some(*lo) == *hi {
                    self.fixed_len(*child).map(|l| l * *lo as usize)
                } else {
                    None
                }
            }
            Ir::Concat(v) => {
                let mut t = 0;
                for c in v {
                    t += self.fixed_len(*c)?;
                }
                Some(t)
            }
            Ir::Alt(v) => {
                let f = self.fixed_len(v[0])?;
                for c in &v[1..] {
                    if self.fixed_len(*c)? != f {
                        return None;
                    }
                }
                Some(f)
            }
            Ir::CondGroup { yes, no, .. } => {
                let a = self.fixed_len(*yes)?;
                if self.fixed_len(*no)? == a {
                    Some(a)
                } else {
                    None
                }
            }
            Ir::Cond { cond, yes, no } => {
                let a = self.fixed_len(*cond)? + self.fixed_len(*yes)?;
                if self.fixed_len(*no)? == a {
                    Some(a)
                } else {
                    None
                }
            }
            Ir::OpaqueSuffix(_) => None,
        }
    }

    /// Build the look-behind node for `body`: one entry per top-level alternative.
    pub fn make_lookbehind(&mut self, neg: bool, body: Id, lenient: bool) -> Result<Id, BuildError> {
        let alts: Vec<Id> = match &self.nodes[body] {
            Ir::Alt(v) => v.clone(),
            _ => vec![body],
        };
        let mut out = Vec::new();
        for a in alts {
            match self.fixed_len(a) {
                Some(l) => out.push((a, Some(l))),
                None if lenient => out.push((a, None)),
                None => return Err(BuildError::LookBehindNotConst),
            }
        }
        Ok(self.add(Ir::LookBehind { neg, alts: out }))
    }
}

/// Front-end from the harness AST.
pub fn from_ast(n: &Node) -> Result<Prog, BuildError> {
    from_ast_opt(n, false)
}

/// `lenient`: variable-length look-behind alternatives get the true look-behind semantics
/// instead of an error.
pub fn from_ast_opt(n: &Node, lenient: bool) -> Result<Prog, BuildError> {
    let mut p = Prog::default();
    p.lenient = lenient;
    let mut next_group = 0usize;
    let root = build(n, &mut p, &mut next_group)?;
    p.root = root;
    p.n_groups = next_group;
    Ok(p)
}

fn build(n: &Node, p: &mut Prog, ng: &mut usize) -> Result<Id, BuildError> {
    Ok(match n {
        Node::Empty => p.add(Ir::Empty),
        Node::Lit(s) => {
            let ids: Vec<Id> = s.chars().map(|c| p.add(Ir::Char(CharPred::Lit(c)))).collect();
            if ids.len() == 1 {
                ids[0]
            } else {
                p.add(Ir::Concat(ids))
            }
        }
        Node::Dot => p.add(Ir::Char(CharPred::AnyNoNl)),
        Node::DotS => p.add(Ir::Char(CharPred::Any)),
        Node::Set(cs, neg) => p.add(Ir::Char(CharPred::Set(cs.clone(), *neg))),
        Node::Word => p.add(Ir::Char(CharPred::Word)),
        Node::Digit => p.add(Ir::Char(CharPred::Digit)),
        Node::Assert(a) => p.add(Ir::Assert(*a)),
        Node::KeepOut => p.add(Ir::KeepOut),
        Node::ContG => p.add(Ir::ContG),
        Node::Backref(g) => p.add(Ir::Backref(*g as usize)),
        Node::CondExists(g) => p.add(Ir::CondExists(*g as usize)),
        Node::Flag(_) => return Err(BuildError::Unsupported("flag")),
        Node::Raw(..) => return Err(BuildError::Unsupported("raw")),
        Node::FlagGroup(..) => return Err(BuildError::Unsupported("flag group")),
        Node::Hole(_) => return Err(BuildError::Unsupported("hole")),
        Node::Group(c) => {
            *ng += 1;
            let g = *ng;
            let c = build(c, p, ng)?;
            p.add(Ir::Group(g, c))
        }
        Node::Atomic(c) => {
            let c = build(c, p, ng)?;
            p.add(Ir::Atomic(c))
        }
        Node::Look(k, c) => {
            let c = build(c, p, ng)?;
            match k {
                LookKind::Ahead => p.add(Ir::LookAhead { neg: false, body: c }),
                LookKind::AheadNeg => p.add(Ir::LookAhead { neg: true, body: c }),
                LookKind::Behind => p.make_lookbehind(false, c, p.lenient)?,
                LookKind::BehindNeg => p.make_lookbehind(true, c, p.lenient)?,
            }
        }
        Node::Repeat(c, lo, hi, m) => {
            let c = build(c, p, ng)?;
            let r = p.add(Ir::Repeat { child: c, lo: *lo, hi: *hi, greedy: *m != Mode::Lazy });
            if *m == Mode::Possessive {
                p.add(Ir::Atomic(r))
            } else {
                r
            }
        }
        Node::Concat(v) => {
            let mut ids = Vec::new();
            for c in v {
                ids.push(build(c, p, ng)?);
            }
            p.add(Ir::Concat(ids))
        }
        Node::Alt(v) => {
            let mut ids = Vec::new();
            for c in v {
                ids.push(build(c, p, ng)?);
            }
            p.add(Ir::Alt(ids))
        }
        Node::CondGroup(g, y, no) => {
            let y = build(y, p, ng)?;
            let no = build(no, p, ng)?;
            p.add(Ir::CondGroup { group: *g as usize, yes: y, no })
        }
        Node::Cond(c, y, no) => {
            let c = build(c, p, ng)?;
            let y = build(y, p, ng)?;
            let no = build(no, p, ng)?;
            p.add(Ir::Cond { cond: c, yes: y, no })
        }
    })
}
