//! Reference models of the iteration algorithms (find_iter, split, splitn, replacen), restated
//! over an abstract `find(pos, skipped_empty_match)`.

/// One match: overall span plus an arbitrary payload (e.g. the groups).
#[derive(Clone, Debug, PartialEq, Eq)]
pub struct M<P> {
    pub start: usize,
    pub end: usize,
    pub payload: P,
}

/// smallest index of the next UTF-8 sequence after `i` (len+1 past the end)
pub fn next_char(text: &str, i: usize) -> usize {
    if i >= text.len() || !text.is_char_boundary(i) {
        // (an offset inside a character can only come from an implementation that already
        // violates C05; the model must not panic on it)
        return i + 1;
    }
    match text[i..].chars().next() {
        Some(c) if i < text.len() => i + c.len_utf8(),
        _ => i + 1,
    }
}

/// The successive leftmost non-overlapping matches: repeat from the previous end; after an empty
/// match step one character; drop an empty match that ends where the previous match ended; the
/// "skipped" flag is set iff the search start lies beyond the end of the previous match; stop for
/// good after an error. `horizon` bounds the number of `find` calls.
pub fn find_iter_model<P, E>(
    text: &str,
    horizon: usize,
    mut find: impl FnMut(usize, bool) -> Result<Option<M<P>>, E>,
) -> Vec<Result<M<P>, E>> {
    let mut out = Vec::new();
    let mut last_end = 0usize;
    let mut last_match: Option<usize> = None;
    let mut calls = 0;
    while last_end <= text.len() && calls < horizon {
        calls += 1;
        let skipped = matches!(last_match, Some(lm) if last_end > lm);
        match find(last_end, skipped) {
            Err(e) => {
                out.push(Err(e));
                break;
            }
            Ok(None) => break,
            Ok(Some(m)) => {
                if m.start == m.end {
                    last_end = next_char(text, m.end);
                    if Some(m.end) == last_match {
                        continue;
                    }
                } else {
                    last_end = m.end;
                }
                last_match = Some(m.end);
                out.push(Ok(m));
            }
        }
    }
    out
}

/// split: the pieces between consecutive matches, one more piece than matches.
pub fn split_model(text: &str, matches: &[(usize, usize)]) -> Vec<(usize, usize)> {
    let mut out = Vec::new();
    let mut last = 0;
    for &(s, e) in matches {
        out.push((last, s));
        last = e;
    }
    out.push((last, text.len()));
    out
}

/// splitn(n): min(n, pieces) items, the first n-1 equal to split's, the last the remainder.
pub fn splitn_model(text: &str, matches: &[(usize, usize)], n: usize) -> Vec<(usize, usize)> {
    let pieces = split_model(text, matches);
    if n == 0 {
        return Vec::new();
    }
    if pieces.len() <= n - 1 {
        // fewer pieces than the limit allows before the remainder: the remainder call comes
        // after split is exhausted... restated exactly: the first n-1 items come from split
        return pieces;
    }
    let mut out: Vec<(usize, usize)> = pieces[..n - 1].to_vec();
    let start = if n == 1 { 0 } else { matches[n - 2].1 };
    out.push((start, text.len()));
    out
}

/// replacen: the first n matches (all if n == 0) replaced, every other byte copied.
/// Returns None when there is no match at all (the implementation then borrows the input).
pub fn replacen_model(text: &str, matches: &[(usize, usize)], n: usize, mut rep: impl FnMut(usize) -> String) -> Option<String> {
    if matches.is_empty() {
        return None;
    }
    let mut out = String::new();
    let mut last = 0;
    for (i, &(s, e)) in matches.iter().enumerate() {
        if n > 0 && i >= n {
            break;
        }
        out.push_str(&text[last..s]);
        out.push_str(&rep(i));
        last = e;
    }
    out.push_str(&text[last..]);
    Some(out)
}
