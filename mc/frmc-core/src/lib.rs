//! frmc-core: everything of the fancy-regex model-checking harness that does not depend on the
//! crate under test (AST, enumerators, reference semantics, iteration model, reference template
//! expander, controlled scheduler, JSON/evidence writer).
pub mod ast;
pub mod evidence;
pub mod expandref;
pub mod ir;
pub mod itermodel;
pub mod json;
pub mod par;
pub mod refsem;
pub mod sched;
pub mod space;
