//! Harness-side regex AST (independent of `fancy_regex::Expr`), printer and static facts.

use std::fmt::Write;

#[derive(Clone, Copy, Debug, PartialEq, Eq, Hash, PartialOrd, Ord)]
pub enum A {
    /// `^`
    Start,
    /// `$`
    End,
    /// `(?m:^)`
    StartLine,
    /// `(?m:$)`
    EndLine,
    /// `\A`
    BigA,
    /// `\z`
    SmallZ,
    /// `\Z`
    BigZ,
    /// `\b`
    WordB,
    /// `\B`
    NotWordB,
}

#[derive(Clone, Copy, Debug, PartialEq, Eq, Hash, PartialOrd, Ord)]
pub enum LookKind {
    Ahead,
    AheadNeg,
    Behind,
    BehindNeg,
}

#[derive(Clone, Copy, Debug, PartialEq, Eq, Hash, PartialOrd, Ord)]
pub enum Mode {
    Greedy,
    Lazy,
    Possessive,
}

#[derive(Clone, Debug, PartialEq, Eq, Hash, PartialOrd, Ord)]
pub enum Node {
    Empty,
    /// literal text (one or more characters)
    Lit(String),
    /// `.`
    Dot,
    /// `(?s:.)`
    DotS,
    /// `[ab]` / `[^a]`
    Set(Vec<char>, bool),
    /// `\w`
    Word,
    /// `\d`
    Digit,
    Assert(A),
    /// `\K`
    KeepOut,
    /// `\G`
    ContG,
    /// `\N`
    Backref(u8),
    /// `(?(N))`
    CondExists(u8),
    /// an inline flag directive such as `(?i)`; an atom that matches the empty string
    Flag(String),
    /// verbatim pattern text that matches exactly one character (`\h`, `\x61`, ...) or nothing
    Raw(String, u8),
    Group(Box<Node>),
    Atomic(Box<Node>),
    Look(LookKind, Box<Node>),
    /// `(?i:X)`, `(?-i:X)`, ...
    FlagGroup(String, Box<Node>),
    Repeat(Box<Node>, u32, Option<u32>, Mode),
    Concat(Vec<Node>),
    Alt(Vec<Node>),
    /// `(?(N)yes|no)`
    CondGroup(u8, Box<Node>, Box<Node>),
    /// `(?(cond)yes|no)`
    Cond(Box<Node>, Box<Node>, Box<Node>),
    /// placeholder in a context
    Hole(u8),
}

pub fn lit(s: &str) -> Node {
    Node::Lit(s.to_string())
}
pub fn cat(v: Vec<Node>) -> Node {
    // flatten nested concatenations and drop Empty
    let mut out = Vec::new();
    for n in v {
        match n {
            Node::Concat(c) => out.extend(c),
            Node::Empty => {}
            n => out.push(n),
        }
    }
    match out.len() {
        0 => Node::Empty,
        1 => out.pop().unwrap(),
        _ => Node::Concat(out),
    }
}
pub fn alt(v: Vec<Node>) -> Node {
    let mut out = Vec::new();
    for n in v {
        match n {
            Node::Alt(c) => out.extend(c),
            n => out.push(n),
        }
    }
    Node::Alt(out)
}
pub fn grp(n: Node) -> Node {
    Node::Group(Box::new(n))
}
pub fn atomic(n: Node) -> Node {
    Node::Atomic(Box::new(n))
}
pub fn look(k: LookKind, n: Node) -> Node {
    Node::Look(k, Box::new(n))
}
pub fn la(n: Node) -> Node {
    look(LookKind::Ahead, n)
}
pub fn nla(n: Node) -> Node {
    look(LookKind::AheadNeg, n)
}
pub fn lb(n: Node) -> Node {
    look(LookKind::Behind, n)
}
pub fn nlb(n: Node) -> Node {
    look(LookKind::BehindNeg, n)
}
pub fn rep(n: Node, lo: u32, hi: Option<u32>, m: Mode) -> Node {
    Node::Repeat(Box::new(n), lo, hi, m)
}
pub fn star(n: Node) -> Node {
    rep(n, 0, None, Mode::Greedy)
}
pub fn plus(n: Node) -> Node {
    rep(n, 1, None, Mode::Greedy)
}
pub fn opt(n: Node) -> Node {
    rep(n, 0, Some(1), Mode::Greedy)
}
pub fn condg(g: u8, y: Node, n: Node) -> Node {
    Node::CondGroup(g, Box::new(y), Box::new(n))
}
pub fn cond(c: Node, y: Node, n: Node) -> Node {
    Node::Cond(Box::new(c), Box::new(y), Box::new(n))
}
pub fn hole(i: u8) -> Node {
    Node::Hole(i)
}
/// The empty positive look-ahead `(?=)`: never changes what matches, always "hard".
pub fn la_empty() -> Node {
    la(Node::Empty)
}

/// How capture groups are spelled by the printer.
#[derive(Clone, Copy, Debug, PartialEq, Eq)]
pub enum Naming {
    /// `(…)` and `\N`
    Numbered,
    /// group i is `(?<gi>…)`; references use `\k<gi>` and `(?(<gi>)…)`
    Angle,
    /// group i is `(?P<gi>…)`; references use `(?P=gi)` and `(?('gi')…)`
    Python,
    /// bit i of the mask (group i+1) named `(?<gi>…)`, the others unnamed; references numbered
    /// (only valid when the pattern has no references)
    Mask(u32),
    /// unnamed groups; backreferences relative: `\k<-n>`; conditions numbered
    Relative,
    /// unnamed groups; backreferences as numeric names `\k<N>`
    NumericName,
    /// group i is `(?<gi>…)`; references use `\k'gi'`
    Quote,
}

pub struct Printer {
    pub naming: Naming,
    /// spell `?`, `*`, `+`, `{n}` as `{0,1}`, `{0,}`, `{1,}`, `{n,n}`
    pub verbose_quantifiers: bool,
    /// name group i by the i-th letter (a, b, ...) instead of `gi`: names that collide with the
    /// literals of the pattern spaces
    pub letter_names: bool,
    /// name group i `жi²` / `v１i` (non-ASCII letters, a superscript and a full-width digit)
    pub unicode_names: bool,
    out: String,
    next_group: u32,
}

impl Printer {
    pub fn new(naming: Naming) -> Printer {
        Printer { naming, verbose_quantifiers: false, letter_names: false, unicode_names: false, out: String::new(), next_group: 0 }
    }

    fn gname(&self, g: u32) -> String {
        if self.unicode_names {
            return if g % 2 == 1 { format!("ж{}²", g) } else { format!("v１{}", g) };
        }
        if self.letter_names && (1..=26).contains(&g) {
            ((b'a' + (g - 1) as u8) as char).to_string()
        } else {
            format!("g{}", g)
        }
    }

    pub fn print(mut self, n: &Node) -> String {
        self.p(n, 0);
        self.out
    }

    fn esc_char(&mut self, c: char) {
        match c {
            '\n' => self.out.push_str("\\n"),
            '\\' | '.' | '+' | '*' | '?' | '(' | ')' | '|' | '[' | ']' | '{' | '}' | '^' | '$'
            | '#' => {
                self.out.push('\\');
                self.out.push(c);
            }
            c => self.out.push(c),
        }
    }

    fn backref(&mut self, g: u8) {
        match self.naming {
            Naming::Numbered | Naming::Mask(_) => {
                let _ = write!(self.out, "\\{}", g);
            }
            Naming::Angle => {
                let nm = self.gname(g as u32);
                let _ = write!(self.out, "\\k<{}>", nm);
            }
            Naming::Python => {
                let nm = self.gname(g as u32);
                let _ = write!(self.out, "(?P={})", nm);
            }
            Naming::Relative => {
                // -1 is the group opened most recently
                let n = self.next_group as i64 - g as i64 + 1;
                if n >= 1 {
                    let _ = write!(self.out, "\\k<-{}>", n);
                } else {
                    let _ = write!(self.out, "\\{}", g);
                }
            }
            Naming::NumericName => {
                let _ = write!(self.out, "\\k<{}>", g);
            }
            Naming::Quote => {
                let nm = self.gname(g as u32);
                let _ = write!(self.out, "\\k'{}'", nm);
            }
        }
    }

    fn cond_ref(&mut self, g: u8) {
        match self.naming {
            Naming::Numbered | Naming::Mask(_) | Naming::Relative | Naming::NumericName => {
                let _ = write!(self.out, "(?({})", g);
            }
            Naming::Angle | Naming::Quote => {
                let nm = self.gname(g as u32);
                let _ = write!(self.out, "(?(<{}>)", nm);
            }
            Naming::Python => {
                let nm = self.gname(g as u32);
                let _ = write!(self.out, "(?('{}')", nm);
            }
        }
    }

    /// prec: 0 = alternation allowed, 1 = concatenation allowed, 2 = must be an atom
    fn p(&mut self, n: &Node, prec: u8) {
        match n {
            Node::Empty => {
                if prec >= 2 {
                    self.out.push_str("(?:)");
                }
            }
            Node::Lit(s) => {
                let many = s.chars().count() > 1;
                if many && prec >= 2 {
                    self.out.push_str("(?:");
                }
                for c in s.chars() {
                    self.esc_char(c);
                }
                if many && prec >= 2 {
                    self.out.push(')');
                }
            }
            Node::Dot => self.out.push('.'),
            Node::DotS => self.out.push_str("(?s:.)"),
            Node::Set(cs, neg) => {
                self.out.push('[');
                if *neg {
                    self.out.push('^');
                }
                for &c in cs {
                    if c == '\n' {
                        self.out.push_str("\\n");
                    } else {
                        self.out.push(c);
                    }
                }
                self.out.push(']');
            }
            Node::Word => self.out.push_str("\\w"),
            Node::Digit => self.out.push_str("\\d"),
            Node::Assert(a) => self.out.push_str(match a {
                A::Start => "^",
                A::End => "$",
                A::StartLine => "(?m:^)",
                A::EndLine => "(?m:$)",
                A::BigA => "\\A",
                A::SmallZ => "\\z",
                A::BigZ => "\\Z",
                A::WordB => "\\b",
                A::NotWordB => "\\B",
            }),
            Node::KeepOut => self.out.push_str("\\K"),
            Node::ContG => self.out.push_str("\\G"),
            Node::Backref(g) => self.backref(*g),
            Node::CondExists(g) => {
                self.cond_ref(*g);
                self.out.push(')');
            }
            Node::Flag(s) => self.out.push_str(s),
            Node::Raw(s, _) => self.out.push_str(s),
            Node::Group(c) => {
                self.next_group += 1;
                let g = self.next_group;
                match self.naming {
                    Naming::Numbered | Naming::Relative | Naming::NumericName => self.out.push('('),
                    Naming::Angle | Naming::Quote => {
                        let nm = self.gname(g as u32);
                let _ = write!(self.out, "(?<{}>", nm);
                    }
                    Naming::Python => {
                        let nm = self.gname(g as u32);
                let _ = write!(self.out, "(?P<{}>", nm);
                    }
                    Naming::Mask(m) => {
                        if m & (1 << (g - 1)) != 0 {
                            if g % 2 == 0 {
                                let nm = self.gname(g as u32);
                let _ = write!(self.out, "(?P<{}>", nm);
                            } else {
                                let nm = self.gname(g as u32);
                let _ = write!(self.out, "(?<{}>", nm);
                            }
                        } else {
                            self.out.push('(');
                        }
                    }
                }
                self.p(c, 0);
                self.out.push(')');
            }
            Node::Atomic(c) => {
                self.out.push_str("(?>");
                self.p(c, 0);
                self.out.push(')');
            }
            Node::Look(k, c) => {
                self.out.push_str(match k {
                    LookKind::Ahead => "(?=",
                    LookKind::AheadNeg => "(?!",
                    LookKind::Behind => "(?<=",
                    LookKind::BehindNeg => "(?<!",
                });
                self.p(c, 0);
                self.out.push(')');
            }
            Node::FlagGroup(f, c) => {
                let _ = write!(self.out, "(?{}:", f);
                self.p(c, 0);
                self.out.push(')');
            }
            Node::Repeat(c, lo, hi, m) => {
                if prec >= 2 {
                    // a quantified quantifier needs a group: `(?:a*)*`
                    self.out.push_str("(?:");
                }
                self.p(c, 2);
                match (lo, hi) {
                    (lo, Some(hi)) if self.verbose_quantifiers => {
                        let _ = write!(self.out, "{{{},{}}}", lo, hi);
                    }
                    (lo, None) if self.verbose_quantifiers => {
                        let _ = write!(self.out, "{{{},}}", lo);
                    }
                    (0, Some(1)) => self.out.push('?'),
                    (0, None) => self.out.push('*'),
                    (1, None) => self.out.push('+'),
                    (lo, Some(hi)) if lo == hi => {
                        let _ = write!(self.out, "{{{}}}", lo);
                    }
                    (lo, Some(hi)) => {
                        let _ = write!(self.out, "{{{},{}}}", lo, hi);
                    }
                    (lo, None) => {
                        let _ = write!(self.out, "{{{},}}", lo);
                    }
                }
                match m {
                    Mode::Greedy => {}
                    Mode::Lazy => self.out.push('?'),
                    Mode::Possessive => self.out.push('+'),
                }
                if prec >= 2 {
                    self.out.push(')');
                }
            }
            Node::Concat(v) => {
                if prec >= 2 {
                    self.out.push_str("(?:");
                }
                for c in v {
                    self.p(c, 1);
                }
                if prec >= 2 {
                    self.out.push(')');
                }
            }
            Node::Alt(v) => {
                if prec >= 1 {
                    self.out.push_str("(?:");
                }
                for (i, c) in v.iter().enumerate() {
                    if i > 0 {
                        self.out.push('|');
                    }
                    self.p(c, 1);
                }
                if prec >= 1 {
                    self.out.push(')');
                }
            }
            Node::CondGroup(g, y, no) => {
                self.cond_ref(*g);
                self.p(y, 1);
                if **no != Node::Empty {
                    self.out.push('|');
                    self.p(no, 1);
                }
                self.out.push(')');
            }
            Node::Cond(c, y, no) => {
                self.out.push_str("(?(");
                self.p(c, 0);
                self.out.push(')');
                self.p(y, 1);
                if **no != Node::Empty {
                    self.out.push('|');
                    self.p(no, 1);
                }
                self.out.push(')');
            }
            Node::Hole(i) => {
                let _ = write!(self.out, "\u{25a1}{}", i);
            }
        }
    }
}

pub fn to_pattern(n: &Node) -> String {
    Printer::new(Naming::Numbered).print(n)
}

pub fn to_pattern_named(n: &Node, naming: Naming) -> String {
    Printer::new(naming).print(n)
}

/// named spelling with non-ASCII letters and non-ASCII numeric characters in the names
pub fn to_pattern_unicode_names(n: &Node, naming: Naming) -> String {
    let mut p = Printer::new(naming);
    p.unicode_names = true;
    p.print(n)
}

/// `(?<a>..)`, `(?<b>..)`, ... with `\k<a>` / `(?(<a>)..)` references
pub fn to_pattern_letter_names(n: &Node) -> String {
    let mut p = Printer::new(Naming::Angle);
    p.letter_names = true;
    p.print(n)
}

impl Node {
    pub fn children(&self) -> Vec<&Node> {
        match self {
            Node::Group(c) | Node::Atomic(c) | Node::Look(_, c) | Node::FlagGroup(_, c) | Node::Repeat(c, ..) => {
                vec![c]
            }
            Node::Concat(v) | Node::Alt(v) => v.iter().collect(),
            Node::CondGroup(_, y, n) => vec![y, n],
            Node::Cond(c, y, n) => vec![c, y, n],
            _ => vec![],
        }
    }

    pub fn children_mut(&mut self) -> Vec<&mut Node> {
        match self {
            Node::Group(c) | Node::Atomic(c) | Node::Look(_, c) | Node::FlagGroup(_, c) | Node::Repeat(c, ..) => {
                vec![c]
            }
            Node::Concat(v) | Node::Alt(v) => v.iter_mut().collect(),
            Node::CondGroup(_, y, n) => vec![y, n],
            Node::Cond(c, y, n) => vec![c, y, n],
            _ => vec![],
        }
    }

    /// number of AST nodes
    pub fn size(&self) -> usize {
        1 + self.children().iter().map(|c| c.size()).sum::<usize>()
    }

    pub fn count_groups(&self) -> usize {
        (matches!(self, Node::Group(_)) as usize) + self.children().iter().map(|c| c.count_groups()).sum::<usize>()
    }

    pub fn any(&self, f: &dyn Fn(&Node) -> bool) -> bool {
        f(self) || self.children().iter().any(|c| c.any(f))
    }

    pub fn has_conditional(&self) -> bool {
        self.any(&|n| matches!(n, Node::Cond(..) | Node::CondGroup(..) | Node::CondExists(_)))
    }

    /// substitute holes
    pub fn fill(&self, fillers: &[&Node]) -> Node {
        match self {
            Node::Hole(i) => fillers[*i as usize].clone(),
            Node::Concat(v) => cat(v.iter().map(|c| c.fill(fillers)).collect()),
            Node::Alt(v) => alt(v.iter().map(|c| c.fill(fillers)).collect()),
            other => {
                let mut n = other.clone();
                for c in n.children_mut() {
                    *c = c.fill(fillers);
                }
                n
            }
        }
    }
}

/// Static facts computed on the harness AST (never taken from the engine).
pub struct Facts {
    /// per group (1-based index - 1): nullable body
    pub group_nullable: Vec<bool>,
    pub n_groups: usize,
    /// every backreference / group condition refers to a group closed earlier in the text
    pub scoped: bool,
    /// every reference names an existing group that is opened (not necessarily closed) before it
    pub refs_valid: bool,
    /// contains an unbounded repeat whose body can match the empty string (class F1)
    pub f1: bool,
    pub has_backref: bool,
    pub has_cond: bool,
    pub has_lookbehind: bool,
    pub has_keepout: bool,
    pub has_contg: bool,
}

pub fn facts(n: &Node) -> Facts {
    let n_groups = n.count_groups();
    let mut f = Facts {
        group_nullable: vec![true; n_groups],
        n_groups,
        scoped: true,
        refs_valid: true,
        f1: false,
        has_backref: false,
        has_cond: false,
        has_lookbehind: false,
        has_keepout: false,
        has_contg: false,
    };
    // pass 1: group nullability (in textual order; inner groups are numbered after outer ones
    // open, so compute recursively with a counter)
    let mut ctr = 0usize;
    fn gn(n: &Node, ctr: &mut usize, out: &mut Vec<bool>) -> bool {
        match n {
            Node::Group(c) => {
                let me = *ctr;
                *ctr += 1;
                let r = gn(c, ctr, out);
                out[me] = r;
                r
            }
            Node::Empty | Node::Assert(_) | Node::KeepOut | Node::ContG | Node::CondExists(_) | Node::Flag(_) => true,
            Node::Look(_, c) => {
                gn(c, ctr, out);
                true
            }
            Node::Lit(s) => s.is_empty(),
            Node::Dot | Node::DotS | Node::Set(..) | Node::Word | Node::Digit => false,
            Node::Raw(_, w) => *w == 0,
            // a backreference can be empty when its group can be; resolved in pass 2, be
            // conservative here (only used for group_nullable of enclosing groups)
            Node::Backref(g) => {
                let g = *g as usize;
                if g >= 1 && g <= out.len() {
                    out[g - 1]
                } else {
                    true
                }
            }
            Node::Atomic(c) | Node::FlagGroup(_, c) => gn(c, ctr, out),
            Node::Repeat(c, lo, _, _) => {
                let r = gn(c, ctr, out);
                r || *lo == 0
            }
            Node::Concat(v) => {
                let mut all = true;
                for c in v {
                    all &= gn(c, ctr, out);
                }
                all
            }
            Node::Alt(v) => {
                let mut any = false;
                for c in v {
                    any |= gn(c, ctr, out);
                }
                any
            }
            Node::CondGroup(_, y, no) => {
                let a = gn(y, ctr, out);
                let b = gn(no, ctr, out);
                a || b
            }
            Node::Cond(c, y, no) => {
                let cn = gn(c, ctr, out);
                let a = gn(y, ctr, out);
                let b = gn(no, ctr, out);
                (cn && a) || b
            }
            Node::Hole(_) => true,
        }
    }
    let mut gnv = vec![true; n_groups];
    gn(n, &mut ctr, &mut gnv);
    f.group_nullable = gnv.clone();

    // pass 2: scoping, F1, feature bits
    struct Ctx<'a> {
        f: &'a mut Facts,
        opened: usize,
        closed: Vec<bool>,
        gn: &'a [bool],
    }
    fn nullable(n: &Node, gnv: &[bool]) -> bool {
        let mut ctr = 0usize;
        let mut tmp = gnv.to_vec();
        // groups inside `n` are numbered relative to n here, which is wrong for backrefs, so
        // only use the precomputed table for backrefs and ignore the writes
        fn go(n: &Node, gnv: &[bool]) -> bool {
            match n {
                Node::Group(c) | Node::Atomic(c) | Node::FlagGroup(_, c) => go(c, gnv),
                Node::Empty | Node::Assert(_) | Node::KeepOut | Node::ContG | Node::CondExists(_) | Node::Flag(_) | Node::Look(..) => true,
                Node::Lit(s) => s.is_empty(),
                Node::Dot | Node::DotS | Node::Set(..) | Node::Word | Node::Digit => false,
                Node::Raw(_, w) => *w == 0,
                Node::Backref(g) => {
                    let g = *g as usize;
                    if g >= 1 && g <= gnv.len() {
                        gnv[g - 1]
                    } else {
                        true
                    }
                }
                Node::Repeat(c, lo, _, _) => *lo == 0 || go(c, gnv),
                Node::Concat(v) => v.iter().all(|c| go(c, gnv)),
                Node::Alt(v) => v.iter().any(|c| go(c, gnv)),
                Node::CondGroup(_, y, no) => go(y, gnv) || go(no, gnv),
                Node::Cond(c, y, no) => (go(c, gnv) && go(y, gnv)) || go(no, gnv),
                Node::Hole(_) => true,
            }
        }
        let _ = (&mut ctr, &mut tmp);
        go(n, gnv)
    }
    fn walk(n: &Node, cx: &mut Ctx) {
        match n {
            Node::Group(c) => {
                let me = cx.opened;
                cx.opened += 1;
                walk(c, cx);
                cx.closed[me] = true;
            }
            Node::Backref(g) | Node::CondExists(g) | Node::CondGroup(g, ..) => {
                let gi = *g as usize;
                if matches!(n, Node::Backref(_)) {
                    cx.f.has_backref = true;
                } else {
                    cx.f.has_cond = true;
                }
                if gi == 0 || gi > cx.closed.len() || gi > cx.opened {
                    cx.f.refs_valid = false;
                    cx.f.scoped = false;
                } else if !cx.closed[gi - 1] {
                    cx.f.scoped = false;
                }
                for c in n.children() {
                    walk(c, cx);
                }
            }
            Node::Cond(..) => {
                cx.f.has_cond = true;
                for c in n.children() {
                    walk(c, cx);
                }
            }
            Node::Repeat(c, _, hi, _) => {
                if hi.is_none() && nullable(c, cx.gn) {
                    cx.f.f1 = true;
                }
                walk(c, cx);
            }
            Node::Look(k, c) => {
                if matches!(k, LookKind::Behind | LookKind::BehindNeg) {
                    cx.f.has_lookbehind = true;
                }
                walk(c, cx);
            }
            Node::KeepOut => cx.f.has_keepout = true,
            Node::ContG => cx.f.has_contg = true,
            _ => {
                for c in n.children() {
                    walk(c, cx);
                }
            }
        }
    }
    let mut cx = Ctx { f: &mut f, opened: 0, closed: vec![false; n_groups], gn: &gnv };
    walk(n, &mut cx);
    f
}

/// Inject `inj` before (`after == false`) or after the `site`-th node (preorder) of `n`.
/// Returns None if `site` is out of range. Used by C03 (every single injection site).
pub fn inject_at(n: &Node, site: usize, after: bool, inj: &Node) -> Option<Node> {
    fn go(n: &Node, ctr: &mut usize, site: usize, after: bool, inj: &Node, done: &mut bool) -> Node {
        let me = *ctr;
        *ctr += 1;
        let rebuilt = match n {
            Node::Concat(v) => Node::Concat(v.iter().map(|c| go(c, ctr, site, after, inj, done)).collect()),
            Node::Alt(v) => Node::Alt(v.iter().map(|c| go(c, ctr, site, after, inj, done)).collect()),
            other => {
                let mut m = other.clone();
                for c in m.children_mut() {
                    let nc = go(c, ctr, site, after, inj, done);
                    *c = nc;
                }
                m
            }
        };
        // re-flatten concats created below
        let rebuilt = match rebuilt {
            Node::Concat(v) => cat(v),
            r => r,
        };
        if me == site {
            *done = true;
            if after {
                cat(vec![rebuilt, inj.clone()])
            } else {
                cat(vec![inj.clone(), rebuilt])
            }
        } else {
            rebuilt
        }
    }
    let mut ctr = 0;
    let mut done = false;
    let r = go(n, &mut ctr, site, after, inj, &mut done);
    if done {
        Some(r)
    } else {
        None
    }
}

/// Inject at every site at once (before every node).
pub fn inject_all(n: &Node, inj: &Node) -> Node {
    fn go(n: &Node, inj: &Node) -> Node {
        let rebuilt = match n {
            Node::Concat(v) => cat(v.iter().map(|c| go(c, inj)).collect()),
            Node::Alt(v) => Node::Alt(v.iter().map(|c| go(c, inj)).collect()),
            other => {
                let mut m = other.clone();
                for c in m.children_mut() {
                    let nc = go(c, inj);
                    *c = nc;
                }
                m
            }
        };
        match n {
            Node::Concat(_) => rebuilt,
            _ => cat(vec![inj.clone(), rebuilt]),
        }
    }
    go(n, inj)
}

pub fn to_pattern_verbose_quantifiers(n: &Node) -> String {
    let mut p = Printer::new(Naming::Numbered);
    p.verbose_quantifiers = true;
    p.print(n)
}
