//! Minimal JSON value, writer and parser (no external crates are available offline for this).

use std::collections::BTreeMap;
use std::fmt::Write;

#[derive(Clone, Debug, PartialEq)]
pub enum J {
    Null,
    Bool(bool),
    Int(i64),
    Num(f64),
    Str(String),
    Arr(Vec<J>),
    Obj(BTreeMap<String, J>),
}

impl From<bool> for J {
    fn from(b: bool) -> J {
        J::Bool(b)
    }
}
impl From<i64> for J {
    fn from(b: i64) -> J {
        J::Int(b)
    }
}
impl From<u64> for J {
    fn from(b: u64) -> J {
        J::Int(b as i64)
    }
}
impl From<usize> for J {
    fn from(b: usize) -> J {
        J::Int(b as i64)
    }
}
impl From<i32> for J {
    fn from(b: i32) -> J {
        J::Int(b as i64)
    }
}
impl From<u32> for J {
    fn from(b: u32) -> J {
        J::Int(b as i64)
    }
}
impl From<f64> for J {
    fn from(b: f64) -> J {
        J::Num(b)
    }
}
impl From<&str> for J {
    fn from(b: &str) -> J {
        J::Str(b.to_string())
    }
}
impl From<String> for J {
    fn from(b: String) -> J {
        J::Str(b)
    }
}
impl<T: Into<J>> From<Vec<T>> for J {
    fn from(v: Vec<T>) -> J {
        J::Arr(v.into_iter().map(Into::into).collect())
    }
}
impl<T: Into<J>> From<Option<T>> for J {
    fn from(v: Option<T>) -> J {
        match v {
            Some(x) => x.into(),
            None => J::Null,
        }
    }
}

#[macro_export]
macro_rules! jobj {
    ($($k:expr => $v:expr),* $(,)?) => {{
        #[allow(unused_mut)]
        let mut m = std::collections::BTreeMap::new();
        $( m.insert($k.to_string(), $crate::json::J::from($v)); )*
        $crate::json::J::Obj(m)
    }};
}

impl J {
    pub fn obj() -> J {
        J::Obj(BTreeMap::new())
    }
    pub fn set(&mut self, k: &str, v: impl Into<J>) -> &mut J {
        if let J::Obj(m) = self {
            m.insert(k.to_string(), v.into());
        }
        self
    }
    pub fn get(&self, k: &str) -> Option<&J> {
        match self {
            J::Obj(m) => m.get(k),
            _ => None,
        }
    }
    pub fn as_str(&self) -> Option<&str> {
        match self {
            J::Str(s) => Some(s),
            _ => None,
        }
    }
    pub fn as_i64(&self) -> Option<i64> {
        match self {
            J::Int(i) => Some(*i),
            J::Num(f) => Some(*f as i64),
            _ => None,
        }
    }
    pub fn as_bool(&self) -> Option<bool> {
        match self {
            J::Bool(b) => Some(*b),
            _ => None,
        }
    }
    pub fn as_arr(&self) -> Option<&Vec<J>> {
        match self {
            J::Arr(a) => Some(a),
            _ => None,
        }
    }
    pub fn str_of(&self, k: &str) -> String {
        self.get(k).and_then(|v| v.as_str()).unwrap_or("").to_string()
    }
    pub fn int_of(&self, k: &str) -> i64 {
        self.get(k).and_then(|v| v.as_i64()).unwrap_or(0)
    }

    pub fn to_string_pretty(&self) -> String {
        let mut s = String::new();
        self.write(&mut s, 0, true);
        s.push('\n');
        s
    }
    pub fn to_string_compact(&self) -> String {
        let mut s = String::new();
        self.write(&mut s, 0, false);
        s
    }

    fn write(&self, out: &mut String, ind: usize, pretty: bool) {
        match self {
            J::Null => out.push_str("null"),
            J::Bool(b) => out.push_str(if *b { "true" } else { "false" }),
            J::Int(i) => {
                let _ = write!(out, "{}", i);
            }
            J::Num(f) => {
                if f.is_finite() {
                    let _ = write!(out, "{:.3}", f);
                } else {
                    out.push_str("null");
                }
            }
            J::Str(s) => write_str(out, s),
            J::Arr(a) => {
                // arrays of scalars stay on one line
                let scalar = a.iter().all(|x| !matches!(x, J::Arr(_) | J::Obj(_)));
                out.push('[');
                for (i, x) in a.iter().enumerate() {
                    if i > 0 {
                        out.push(',');
                    }
                    if pretty && !scalar {
                        out.push('\n');
                        out.push_str(&" ".repeat(ind + 1));
                    } else if i > 0 && pretty {
                        out.push(' ');
                    }
                    x.write(out, ind + 1, pretty && !scalar);
                }
                if pretty && !scalar && !a.is_empty() {
                    out.push('\n');
                    out.push_str(&" ".repeat(ind));
                }
                out.push(']');
            }
            J::Obj(m) => {
                out.push('{');
                for (i, (k, v)) in m.iter().enumerate() {
                    if i > 0 {
                        out.push(',');
                    }
                    if pretty {
                        out.push('\n');
                        out.push_str(&" ".repeat(ind + 1));
                    }
                    write_str(out, k);
                    out.push(':');
                    if pretty {
                        out.push(' ');
                    }
                    v.write(out, ind + 1, pretty);
                }
                if pretty && !m.is_empty() {
                    out.push('\n');
                    out.push_str(&" ".repeat(ind));
                }
                out.push('}');
            }
        }
    }
}

fn write_str(out: &mut String, s: &str) {
    out.push('"');
    for c in s.chars() {
        match c {
            '"' => out.push_str("\\\""),
            '\\' => out.push_str("\\\\"),
            '\n' => out.push_str("\\n"),
            '\r' => out.push_str("\\r"),
            '\t' => out.push_str("\\t"),
            c if (c as u32) < 0x20 => {
                let _ = write!(out, "\\u{:04x}", c as u32);
            }
            c => out.push(c),
        }
    }
    out.push('"');
}

pub fn parse(s: &str) -> Result<J, String> {
    let b: Vec<char> = s.chars().collect();
    let mut p = P { b: &b, i: 0 };
    p.ws();
    let v = p.val()?;
    p.ws();
    if p.i != b.len() {
        return Err(format!("trailing input at {}", p.i));
    }
    Ok(v)
}

struct P<'a> {
    b: &'a [char],
    i: usize,
}

impl<'a> P<'a> {
    fn ws(&mut self) {
        while self.i < self.b.len() && self.b[self.i].is_whitespace() {
            self.i += 1;
        }
    }
    fn val(&mut self) -> Result<J, String> {
        self.ws();
        if self.i >= self.b.len() {
            return Err("eof".into());
        }
        match self.b[self.i] {
            '{' => {
                self.i += 1;
                let mut m = BTreeMap::new();
                loop {
                    self.ws();
                    if self.peek() == Some('}') {
                        self.i += 1;
                        break;
                    }
                    let k = match self.val()? {
                        J::Str(s) => s,
                        _ => return Err("key".into()),
                    };
                    self.ws();
                    if self.peek() != Some(':') {
                        return Err("colon".into());
                    }
                    self.i += 1;
                    let v = self.val()?;
                    m.insert(k, v);
                    self.ws();
                    match self.peek() {
                        Some(',') => self.i += 1,
                        Some('}') => {
                            self.i += 1;
                            break;
                        }
                        _ => return Err("obj sep".into()),
                    }
                }
                Ok(J::Obj(m))
            }
            '[' => {
                self.i += 1;
                let mut a = Vec::new();
                loop {
                    self.ws();
                    if self.peek() == Some(']') {
                        self.i += 1;
                        break;
                    }
                    a.push(self.val()?);
                    self.ws();
                    match self.peek() {
                        Some(',') => self.i += 1,
                        Some(']') => {
                            self.i += 1;
                            break;
                        }
                        _ => return Err("arr sep".into()),
                    }
                }
                Ok(J::Arr(a))
            }
            '"' => {
                self.i += 1;
                let mut s = String::new();
                while self.i < self.b.len() {
                    let c = self.b[self.i];
                    self.i += 1;
                    match c {
                        '"' => return Ok(J::Str(s)),
                        '\\' => {
                            let e = *self.b.get(self.i).ok_or("esc")?;
                            self.i += 1;
                            match e {
                                'n' => s.push('\n'),
                                'r' => s.push('\r'),
                                't' => s.push('\t'),
                                'b' => s.push('\u{8}'),
                                'f' => s.push('\u{c}'),
                                'u' => {
                                    let h: String = self.b[self.i..self.i + 4].iter().collect();
                                    self.i += 4;
                                    let cp = u32::from_str_radix(&h, 16).map_err(|e| e.to_string())?;
                                    s.push(char::from_u32(cp).unwrap_or('\u{fffd}'));
                                }
                                c => s.push(c),
                            }
                        }
                        c => s.push(c),
                    }
                }
                Err("unterminated string".into())
            }
            't' => self.lit("true", J::Bool(true)),
            'f' => self.lit("false", J::Bool(false)),
            'n' => self.lit("null", J::Null),
            _ => {
                let st = self.i;
                while self.i < self.b.len()
                    && (self.b[self.i].is_ascii_digit() || "+-.eE".contains(self.b[self.i]))
                {
                    self.i += 1;
                }
                let t: String = self.b[st..self.i].iter().collect();
                if let Ok(i) = t.parse::<i64>() {
                    Ok(J::Int(i))
                } else {
                    t.parse::<f64>().map(J::Num).map_err(|e| format!("{}: {:?}", e, t))
                }
            }
        }
    }
    fn peek(&self) -> Option<char> {
        self.b.get(self.i).copied()
    }
    fn lit(&mut self, w: &str, v: J) -> Result<J, String> {
        let n = w.chars().count();
        let t: String = self.b[self.i..(self.i + n).min(self.b.len())].iter().collect();
        if t == w {
            self.i += n;
            Ok(v)
        } else {
            Err(format!("bad literal at {}", self.i))
        }
    }
}
