//! Reference implementation of the documented `$`-template syntax and of the Python-style
//! expander, written from the doc comments only (C12).

use std::collections::HashMap;

pub struct CapModel {
    /// text of every group (index 0 = whole match); None = did not participate
    pub groups: Vec<Option<String>>,
    pub names: HashMap<String, usize>,
}

fn is_id_char(c: char) -> bool {
    c.is_alphanumeric() || c == '_'
}

impl CapModel {
    fn by_name_or_index(&self, name: &str) -> Option<&str> {
        if let Some(&i) = self.names.get(name) {
            return self.groups.get(i).and_then(|g| g.as_deref());
        }
        if let Ok(i) = name.parse::<usize>() {
            return self.groups.get(i).and_then(|g| g.as_deref());
        }
        None
    }
}

/// `$$` is a literal `$`; `${name}` / `$name` (longest identifier) / `$N` insert the group's text
/// or nothing if absent; anything else is copied verbatim.
pub fn expand_default(t: &str, caps: &CapModel) -> String {
    let cs: Vec<char> = t.chars().collect();
    let mut out = String::new();
    let mut i = 0;
    while i < cs.len() {
        let c = cs[i];
        if c != '$' {
            out.push(c);
            i += 1;
            continue;
        }
        // c == '$'
        if i + 1 < cs.len() && cs[i + 1] == '$' {
            out.push('$');
            i += 2;
            continue;
        }
        if i + 1 < cs.len() && cs[i + 1] == '{' {
            let mut j = i + 2;
            while j < cs.len() && is_id_char(cs[j]) {
                j += 1;
            }
            if j > i + 2 && j < cs.len() && cs[j] == '}' {
                let name: String = cs[i + 2..j].iter().collect();
                if let Some(s) = caps.by_name_or_index(&name) {
                    out.push_str(s);
                }
                i = j + 1;
                continue;
            }
            // malformed: verbatim
            out.push('$');
            i += 1;
            continue;
        }
        let mut j = i + 1;
        while j < cs.len() && is_id_char(cs[j]) {
            j += 1;
        }
        if j > i + 1 {
            let name: String = cs[i + 1..j].iter().collect();
            if let Some(s) = caps.by_name_or_index(&name) {
                out.push_str(s);
            }
            i = j;
            continue;
        }
        out.push('$');
        i += 1;
    }
    out
}

/// `\\` is a literal backslash; `\N` (longest number) and `\g<name>` insert the group's text or
/// nothing; anything else is copied verbatim.
pub fn expand_python(t: &str, caps: &CapModel) -> String {
    let cs: Vec<char> = t.chars().collect();
    let mut out = String::new();
    let mut i = 0;
    while i < cs.len() {
        let c = cs[i];
        if c != '\\' {
            out.push(c);
            i += 1;
            continue;
        }
        if i + 1 < cs.len() && cs[i + 1] == '\\' {
            out.push('\\');
            i += 2;
            continue;
        }
        if i + 2 < cs.len() && cs[i + 1] == 'g' && cs[i + 2] == '<' {
            let mut j = i + 3;
            while j < cs.len() && is_id_char(cs[j]) {
                j += 1;
            }
            if j > i + 3 && j < cs.len() && cs[j] == '>' {
                let name: String = cs[i + 3..j].iter().collect();
                if let Some(s) = caps.by_name_or_index(&name) {
                    out.push_str(s);
                }
                i = j + 1;
                continue;
            }
            out.push('\\');
            i += 1;
            continue;
        }
        let mut j = i + 1;
        while j < cs.len() && cs[j].is_ascii_digit() {
            j += 1;
        }
        if j > i + 1 {
            let num: String = cs[i + 1..j].iter().collect();
            if let Ok(n) = num.parse::<usize>() {
                if let Some(Some(s)) = caps.groups.get(n) {
                    out.push_str(s);
                }
                i = j;
                continue;
            }
            // a number too large for an index: the implementation cannot name a group with it;
            // documented as "replaced with the empty string" only for valid numbers, so treat
            // as verbatim backslash (this is compared leniently by the caller)
            out.push('\\');
            i += 1;
            continue;
        }
        out.push('\\');
        i += 1;
    }
    out
}

/// References of a template (names or indices), for the one-directional `check` oracle.
pub enum Ref {
    Name(String),
    Index(usize),
}

pub fn references_default(t: &str) -> Vec<Ref> {
    let cs: Vec<char> = t.chars().collect();
    let mut out = Vec::new();
    let mut i = 0;
    while i < cs.len() {
        if cs[i] != '$' {
            i += 1;
            continue;
        }
        if i + 1 < cs.len() && cs[i + 1] == '$' {
            i += 2;
            continue;
        }
        let (st, braced) = if i + 1 < cs.len() && cs[i + 1] == '{' { (i + 2, true) } else { (i + 1, false) };
        let mut j = st;
        while j < cs.len() && is_id_char(cs[j]) {
            j += 1;
        }
        if j > st && (!braced || (j < cs.len() && cs[j] == '}')) {
            let name: String = cs[st..j].iter().collect();
            out.push(match name.parse::<usize>() {
                Ok(n) => Ref::Index(n),
                Err(_) => Ref::Name(name),
            });
            i = if braced { j + 1 } else { j };
            continue;
        }
        i += 1;
    }
    out
}
