//! Parallel sharding of a deterministic enumeration: every worker runs the same enumeration and
//! dynamically claims blocks of consecutive indices.

use std::sync::atomic::{AtomicUsize, Ordering};

pub fn n_threads() -> usize {
    std::env::var("VERIF_THREADS")
        .ok()
        .and_then(|s| s.parse().ok())
        .unwrap_or_else(|| std::thread::available_parallelism().map(|n| n.get()).unwrap_or(4))
}

pub struct Claimer<'a> {
    next: &'a AtomicUsize,
    block: usize,
    mine: Option<usize>,
}

impl<'a> Claimer<'a> {
    pub fn new(next: &'a AtomicUsize, block: usize) -> Claimer<'a> {
        Claimer { next, block, mine: None }
    }
    /// must be called with monotonically increasing `idx`
    #[inline]
    pub fn is_mine(&mut self, idx: usize) -> bool {
        let b = idx / self.block;
        loop {
            match self.mine {
                Some(m) if m == b => return true,
                Some(m) if m > b => return false,
                _ => self.mine = Some(self.next.fetch_add(1, Ordering::Relaxed)),
            }
        }
    }
}

/// Run `f(worker_index, claimer)` on `n` threads and collect the results.
pub fn run_workers<R: Send>(block: usize, f: impl Fn(usize, &mut Claimer) -> R + Sync) -> Vec<R> {
    let n = n_threads();
    let next = AtomicUsize::new(0);
    std::thread::scope(|s| {
        let handles: Vec<_> = (0..n)
            .map(|w| {
                let next = &next;
                let f = &f;
                std::thread::Builder::new()
                    .stack_size(256 << 20)
                    .spawn_scoped(s, move || {
                        let mut c = Claimer::new(next, block);
                        f(w, &mut c)
                    })
                    .expect("spawn")
            })
            .collect();
        handles
            .into_iter()
            .map(|h| match h.join() {
                Ok(r) => r,
                Err(p) => {
                    // a panic of the harness itself (panics of the crate under test are caught at
                    // the adapter level): machinery error, never a verdict
                    let msg = p.downcast_ref::<&str>().map(|s| s.to_string()).or_else(|| p.downcast_ref::<String>().cloned()).unwrap_or_default();
                    eprintln!("machinery error: a harness worker panicked: {}", msg);
                    std::process::exit(2);
                }
            })
            .collect()
    })
}
