//! Evidence and replay files.

use crate::json::J;
use std::path::{Path, PathBuf};

pub fn verif_dir() -> PathBuf {
    std::env::var("VERIF_DIR").map(PathBuf::from).unwrap_or_else(|_| PathBuf::from("/verif"))
}

/// where evidence and replays are written (VERIF_OUT_DIR overrides, used when a check is run
/// against a deliberately broken tree so that the committed evidence is not overwritten)
pub fn out_dir() -> PathBuf {
    std::env::var("VERIF_OUT_DIR").map(PathBuf::from).unwrap_or_else(|_| verif_dir())
}

pub struct Evidence {
    pub property_id: String,
    pub tier: String,
    pub seed: i64,
    pub coverage: J,
    pub assumptions: Vec<String>,
    pub wall_s: f64,
    pub violations: u64,
    pub extra: Vec<(String, J)>,
}

impl Evidence {
    pub fn write(&self) -> std::io::Result<PathBuf> {
        let mut j = J::obj();
        j.set("property_id", self.property_id.as_str());
        j.set("tier", self.tier.as_str());
        j.set("seed", self.seed);
        j.set("level", "model_checking");
        j.set("coverage", self.coverage.clone());
        j.set("assumptions", self.assumptions.clone());
        j.set("wall_s", self.wall_s);
        j.set("violations", self.violations);
        for (k, v) in &self.extra {
            j.set(k, v.clone());
        }
        let dir = out_dir().join("evidence");
        std::fs::create_dir_all(&dir)?;
        let path = dir.join(format!("{}.json", self.property_id));
        let tmp = dir.join(format!(".{}.json.tmp", self.property_id));
        std::fs::write(&tmp, j.to_string_pretty())?;
        std::fs::rename(&tmp, &path)?;
        Ok(path)
    }
}

fn fnv(s: &str) -> u64 {
    let mut h: u64 = 0xcbf29ce484222325;
    for b in s.bytes() {
        h ^= b as u64;
        h = h.wrapping_mul(0x100000001b3);
    }
    h
}

/// Write one violation as a replayable artefact; returns its path.
pub fn write_replay(property: &str, case: &J) -> PathBuf {
    let body = case.to_string_pretty();
    let dir = out_dir().join("replays").join(property);
    let _ = std::fs::create_dir_all(&dir);
    let path = dir.join(format!("{:016x}.json", fnv(&body)));
    let _ = std::fs::write(&path, body);
    path
}

pub fn read_json(path: &Path) -> Result<J, String> {
    let s = std::fs::read_to_string(path).map_err(|e| e.to_string())?;
    crate::json::parse(&s)
}
