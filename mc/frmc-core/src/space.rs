//! Finite pattern and text spaces, all enumerated completely.

use crate::ast::*;

#[derive(Clone, Debug, PartialEq, Eq)]
pub enum Unary {
    Group,
    Atomic,
    Look(LookKind),
    Rep(u32, Option<u32>, Mode),
    FlagGroup(&'static str),
}

impl Unary {
    pub fn apply(&self, n: Node) -> Node {
        match self {
            Unary::Group => grp(n),
            Unary::Atomic => atomic(n),
            Unary::Look(k) => look(*k, n),
            Unary::Rep(lo, hi, m) => rep(n, *lo, *hi, *m),
            Unary::FlagGroup(f) => Node::FlagGroup(f.to_string(), Box::new(n)),
        }
    }
}

#[derive(Clone, Debug)]
pub struct Grammar {
    pub atoms: Vec<Node>,
    pub unary: Vec<Unary>,
    pub concat: bool,
    pub alt: bool,
    /// `(?(1)yes|no)` with group 1
    pub cond_group: bool,
    /// `(?(cond)yes|no)`
    pub cond_expr: bool,
    /// allow `Empty` as an alternative / branch
    pub empty_alt: bool,
}

pub fn all_repeats() -> Vec<Unary> {
    let mut v = Vec::new();
    for (lo, hi) in [(0, Some(1)), (0, None), (1, None), (2, Some(2)), (1, Some(2)), (2, None)] {
        for m in [Mode::Greedy, Mode::Lazy, Mode::Possessive] {
            v.push(Unary::Rep(lo, hi, m));
        }
    }
    // `X{0}`: matches the empty string, groups inside never participate
    v.push(Unary::Rep(0, Some(0), Mode::Greedy));
    // `X{1}` and `X{1}?`: exactly once, whatever the greediness
    v.push(Unary::Rep(1, Some(1), Mode::Greedy));
    v.push(Unary::Rep(1, Some(1), Mode::Lazy));
    v
}

pub fn basic_repeats() -> Vec<Unary> {
    vec![
        Unary::Rep(0, Some(1), Mode::Greedy),
        Unary::Rep(0, Some(1), Mode::Lazy),
        Unary::Rep(0, None, Mode::Greedy),
        Unary::Rep(0, None, Mode::Lazy),
        Unary::Rep(1, None, Mode::Greedy),
        Unary::Rep(1, None, Mode::Lazy),
        Unary::Rep(2, Some(2), Mode::Greedy),
        Unary::Rep(1, Some(2), Mode::Greedy),
        Unary::Rep(1, Some(2), Mode::Lazy),
        Unary::Rep(1, Some(1), Mode::Greedy),
        Unary::Rep(1, Some(1), Mode::Lazy),
    ]
}

pub fn all_looks() -> Vec<Unary> {
    vec![
        Unary::Look(LookKind::Ahead),
        Unary::Look(LookKind::AheadNeg),
        Unary::Look(LookKind::Behind),
        Unary::Look(LookKind::BehindNeg),
    ]
}

/// The 12-atom core set of DESIGN §3.2.
pub fn core_atoms() -> Vec<Node> {
    vec![
        lit("a"),
        lit("b"),
        lit("é"),
        Node::Dot,
        Node::Set(vec!['a'], true),
        Node::Assert(A::Start),
        Node::Assert(A::End),
        Node::Assert(A::EndLine),
        Node::Assert(A::WordB),
        Node::KeepOut,
        Node::ContG,
        Node::Backref(1),
    ]
}

pub fn extended_atoms() -> Vec<Node> {
    let mut v = core_atoms();
    v.extend(vec![
        lit("c"),
        lit("-"),
        lit("\n"),
        Node::DotS,
        Node::Set(vec!['a', 'b'], false),
        Node::Word,
        Node::Digit,
        Node::Assert(A::StartLine),
        Node::Assert(A::BigA),
        Node::Assert(A::SmallZ),
        Node::Assert(A::BigZ),
        Node::Assert(A::NotWordB),
        Node::Backref(2),
    ]);
    v
}

/// Fancy grammar: every unary operator, concat, alt.
pub fn fancy_grammar(atoms: Vec<Node>) -> Grammar {
    let mut unary = vec![Unary::Group, Unary::Atomic];
    unary.extend(all_looks());
    unary.extend(all_repeats());
    Grammar { atoms, unary, concat: true, alt: true, cond_group: false, cond_expr: false, empty_alt: true }
}

pub fn cond_grammar(atoms: Vec<Node>) -> Grammar {
    let mut g = fancy_grammar(atoms);
    g.unary = vec![Unary::Group, Unary::Atomic, Unary::Look(LookKind::Ahead), Unary::Look(LookKind::AheadNeg)];
    g.unary.extend(vec![
        Unary::Rep(0, Some(1), Mode::Greedy),
        Unary::Rep(0, None, Mode::Greedy),
        Unary::Rep(1, None, Mode::Lazy),
        Unary::Rep(2, Some(2), Mode::Greedy),
        Unary::Rep(0, None, Mode::Possessive),
    ]);
    g.cond_group = true;
    g.cond_expr = true;
    g
}

/// Sub-grammar shared with the `regex` crate.
pub fn common_grammar() -> Grammar {
    let atoms = vec![
        lit("a"),
        lit("b"),
        lit("é"),
        Node::Dot,
        Node::Set(vec!['a'], true),
        Node::Set(vec!['a', 'b'], false),
        Node::Word,
        Node::Assert(A::Start),
        Node::Assert(A::End),
        Node::Assert(A::WordB),
        Node::Assert(A::NotWordB),
    ];
    Grammar {
        atoms,
        unary: {
            let mut u = vec![Unary::Group];
            u.extend(basic_repeats());
            u
        },
        concat: true,
        alt: true,
        cond_group: false,
        cond_expr: false,
        empty_alt: true,
    }
}

/// Memoised enumeration of all ASTs with exactly n nodes.
pub struct Enumerator {
    pub g: Grammar,
    /// by_size[n] = all nodes of exactly n nodes (index 0 unused)
    pub by_size: Vec<Vec<Node>>,
}

fn compositions(total: usize, parts: usize, min: usize, f: &mut dyn FnMut(&[usize])) {
    fn go(total: usize, parts: usize, min: usize, cur: &mut Vec<usize>, f: &mut dyn FnMut(&[usize])) {
        if parts == 1 {
            if total >= min {
                cur.push(total);
                f(cur);
                cur.pop();
            }
            return;
        }
        let mut first = min;
        while first + min * (parts - 1) <= total {
            cur.push(first);
            go(total - first, parts - 1, min, cur, f);
            cur.pop();
            first += 1;
        }
    }
    let mut cur = Vec::new();
    go(total, parts, min, &mut cur, f);
}

impl Enumerator {
    pub fn new(g: Grammar) -> Enumerator {
        Enumerator { g, by_size: vec![Vec::new()] }
    }

    /// make sure by_size[1..=n] are materialised
    pub fn materialise(&mut self, n: usize) {
        while self.by_size.len() <= n {
            let size = self.by_size.len();
            let mut out = Vec::new();
            self.for_each_of_size(size, &mut |node| out.push(node));
            self.by_size.push(out);
        }
    }

    /// Stream every AST of exactly `n` nodes (needs sizes < n materialised).
    pub fn for_each_of_size(&self, n: usize, f: &mut dyn FnMut(Node)) {
        assert!(self.by_size.len() >= n, "smaller sizes must be materialised first");
        if n == 0 {
            return;
        }
        if n == 1 {
            for a in &self.g.atoms {
                f(a.clone());
            }
            return;
        }
        // unary
        for u in &self.g.unary {
            // a unary operator over Empty: `()`, `(?=)`, `(?>)` (2 nodes) -- only for groups and looks
            if n == 2 && matches!(u, Unary::Group | Unary::Look(_)) {
                f(u.apply(Node::Empty));
            }
            for c in &self.by_size[n - 1] {
                if let Unary::Rep(..) = u {
                    // never generate directly unrepeatable operands (the parser rejects them):
                    if matches!(c, Node::Assert(_) | Node::Look(..) | Node::Empty) {
                        continue;
                    }
                }
                f(u.apply(c.clone()));
            }
        }
        // n-ary concat / alt: 1 + sum(children) = n, children >= 2
        for kind in 0..2 {
            if kind == 0 && !self.g.concat {
                continue;
            }
            if kind == 1 && !self.g.alt {
                continue;
            }
            let budget = n - 1;
            for parts in 2..=budget {
                compositions(budget, parts, 1, &mut |sizes| {
                    self.product(sizes, kind == 0, f);
                });
            }
            // alternation with one empty arm: `x|` and `|x` (Empty counts as one node)
            if kind == 1 && self.g.empty_alt && n >= 3 {
                for c in &self.by_size[n - 2] {
                    if matches!(c, Node::Alt(_)) {
                        continue;
                    }
                    f(Node::Alt(vec![c.clone(), Node::Empty]));
                    f(Node::Alt(vec![Node::Empty, c.clone()]));
                }
            }
        }
        // conditionals: 1 + children
        if self.g.cond_group && n >= 2 {
            // (?(1)) alone is the atom CondExists -- generated here as size 1 would clash with atoms
            // (?(1)yes) and (?(1)yes|no) and (?(1)|no)
            for y in &self.by_size[n - 1] {
                f(condg(1, y.clone(), Node::Empty));
                if n >= 3 {
                    // handled below with explicit no
                }
            }
            if n >= 3 {
                for no in &self.by_size[n - 2] {
                    f(condg(1, Node::Empty, no.clone()));
                }
                compositions(n - 1, 2, 1, &mut |sizes| {
                    for y in &self.by_size[sizes[0]] {
                        for no in &self.by_size[sizes[1]] {
                            f(condg(1, y.clone(), no.clone()));
                        }
                    }
                });
            }
        }
        if self.g.cond_expr && n >= 3 {
            // (?(c)yes)
            compositions(n - 1, 2, 1, &mut |sizes| {
                for c in &self.by_size[sizes[0]] {
                    for y in &self.by_size[sizes[1]] {
                        f(cond(c.clone(), y.clone(), Node::Empty));
                    }
                }
            });
            if n >= 4 {
                compositions(n - 1, 3, 1, &mut |sizes| {
                    for c in &self.by_size[sizes[0]] {
                        for y in &self.by_size[sizes[1]] {
                            for no in &self.by_size[sizes[2]] {
                                f(cond(c.clone(), y.clone(), no.clone()));
                            }
                        }
                    }
                });
                // (?(c)|no)
                compositions(n - 2, 2, 1, &mut |sizes| {
                    for c in &self.by_size[sizes[0]] {
                        for no in &self.by_size[sizes[1]] {
                            f(cond(c.clone(), Node::Empty, no.clone()));
                        }
                    }
                });
            }
        }
    }

    fn product(&self, sizes: &[usize], concat: bool, f: &mut dyn FnMut(Node)) {
        let mut idx = vec![0usize; sizes.len()];
        let lists: Vec<&Vec<Node>> = sizes.iter().map(|&s| &self.by_size[s]).collect();
        if lists.iter().any(|l| l.is_empty()) {
            return;
        }
        'outer: loop {
            // canonical form: children of a concat are not concats, of an alt not alts
            let mut ok = true;
            for (k, l) in lists.iter().enumerate() {
                let c = &l[idx[k]];
                if concat && matches!(c, Node::Concat(_)) || !concat && matches!(c, Node::Alt(_)) {
                    ok = false;
                    break;
                }
            }
            if ok {
                let v: Vec<Node> = lists.iter().enumerate().map(|(k, l)| l[idx[k]].clone()).collect();
                f(if concat { Node::Concat(v) } else { Node::Alt(v) });
            }
            let mut k = sizes.len();
            loop {
                if k == 0 {
                    break 'outer;
                }
                k -= 1;
                idx[k] += 1;
                if idx[k] < lists[k].len() {
                    break;
                }
                idx[k] = 0;
            }
        }
    }

    /// Stream every AST with at most `k` nodes; `f` gets a running index.
    pub fn for_each_upto(&mut self, k: usize, f: &mut dyn FnMut(usize, Node)) {
        if k >= 1 {
            self.materialise(k - 1);
        }
        let mut idx = 0usize;
        for n in 1..=k {
            self.for_each_of_size(n, &mut |node| {
                f(idx, node);
                idx += 1;
            });
        }
    }
}

/// All strings over `alphabet` of length 0..=max_len, shortest first.
pub fn texts(alphabet: &[char], max_len: usize) -> Vec<String> {
    let mut out = vec![String::new()];
    let mut cur = vec![String::new()];
    for _ in 0..max_len {
        let mut next = Vec::new();
        for s in &cur {
            for &c in alphabet {
                let mut t = s.clone();
                t.push(c);
                next.push(t);
            }
        }
        out.extend(next.iter().cloned());
        cur = next;
    }
    out
}

/// every char-boundary offset of `s` (including len)
pub fn offsets(s: &str) -> Vec<usize> {
    let mut v: Vec<usize> = s.char_indices().map(|(i, _)| i).collect();
    v.push(s.len());
    v
}

/// Plain-regex fillers of DESIGN §3.2 (CTX×FILL): every AST of <= k nodes over a small plain
/// grammar, plus the ambiguity fillers that need more nodes.
pub fn fillers(k: usize) -> Vec<Node> {
    let g = Grammar {
        atoms: vec![lit("a"), lit("b"), lit("é"), Node::Dot, Node::Set(vec!['a'], true), lit("ab")],
        unary: vec![
            Unary::Group,
            Unary::Rep(0, Some(1), Mode::Greedy),
            Unary::Rep(0, Some(1), Mode::Lazy),
            Unary::Rep(0, None, Mode::Greedy),
            Unary::Rep(0, None, Mode::Lazy),
            Unary::Rep(1, None, Mode::Greedy),
            Unary::Rep(1, Some(2), Mode::Greedy),
            Unary::Rep(1, Some(2), Mode::Lazy),
        ],
        concat: true,
        alt: true,
        cond_group: false,
        cond_expr: false,
        empty_alt: true,
    };
    let mut e = Enumerator::new(g);
    let mut out = Vec::new();
    e.for_each_upto(k, &mut |_, n| out.push(n));
    if k >= 2 {
        // hand-picked larger fillers: a variable-size part followed by something that forces
        // backtracking into it (they need 4-5 nodes)
        let set_ab = || Node::Set(vec!['a', 'b'], false);
        out.extend(vec![
            cat(vec![star(lit("a")), lit("b")]),
            cat(vec![star(Node::Dot), lit("b")]),
            cat(vec![star(lit("a")), lit("ab")]),
            cat(vec![star(set_ab()), lit("b"), lit("b")]),
            cat(vec![rep(lit("a"), 0, None, Mode::Lazy), lit("b")]),
            cat(vec![plus(Node::Set(vec!['a'], true)), lit("a")]),
            cat(vec![opt(Node::Dot), lit("a")]),
            cat(vec![alt(vec![lit("a"), lit("ab")]), lit("b")]),
            cat(vec![grp(star(lit("a"))), lit("a")]),
            cat(vec![rep(lit("a"), 1, Some(2), Mode::Greedy), lit("a")]),
        ]);
    }
    out
}

/// One-hole and two-hole contexts of Appendix A.
pub struct Context {
    pub name: &'static str,
    pub node: Node,
    pub holes: usize,
}

pub fn contexts() -> Vec<Context> {
    use LookKind::*;
    let h0 = || hole(0);
    let h1 = || hole(1);
    let x = || lit("a");
    let y = || lit("b");
    let e = la_empty;
    let lazy_plus = |n| rep(n, 1, None, Mode::Lazy);
    let rep2 = |n| rep(n, 2, Some(2), Mode::Greedy);
    let rep12lazy = |n| rep(n, 1, Some(2), Mode::Lazy);
    let poss_star = |n| rep(n, 0, None, Mode::Possessive);
    let poss_opt = |n| rep(n, 0, Some(1), Mode::Possessive);
    let mut v: Vec<(&'static str, Node)> = vec![
        // delegation boundaries
        ("□", h0()),
        ("(?=)□", cat(vec![e(), h0()])),
        ("□(?=)", cat(vec![h0(), e()])),
        ("(?=)□(?=)", cat(vec![e(), h0(), e()])),
        ("x□", cat(vec![x(), h0()])),
        ("□x", cat(vec![h0(), x()])),
        ("(?=)x□", cat(vec![e(), x(), h0()])),
        ("□x(?=)", cat(vec![h0(), x(), e()])),
        ("(?:(?=)□)x", cat(vec![Node::Concat(vec![e(), h0()]), x()])),
        ("((?=)□)□'", cat(vec![grp(cat(vec![e(), h0()])), h1()])),
        ("((?!x)□)□'", cat(vec![grp(cat(vec![nla(x()), h0()])), h1()])),
        ("x(?=)□y", cat(vec![x(), e(), h0(), y()])),
        // interpreted loops around delegated bodies
        ("(?:□(?=))*", star(cat(vec![h0(), e()]))),
        ("(?:□(?=))+?", lazy_plus(cat(vec![h0(), e()]))),
        ("(?:□(?=)){2}", rep2(cat(vec![h0(), e()]))),
        ("(?:□(?=)){1,2}?", rep12lazy(cat(vec![h0(), e()]))),
        ("(?:(?>□)){2}", rep2(atomic(h0()))),
        ("(?:(?>□))*x", cat(vec![star(atomic(h0())), x()])),
        ("(?:(?=□)a)*", star(cat(vec![la(h0()), x()]))),
        ("(?:□|x(?=))+y", cat(vec![plus(alt(vec![h0(), cat(vec![x(), e()])])), y()])),
        // counted repeats with a hard body as the last element of an atomic construct: a failing
        // required iteration must backtrack into the previous one
        ("(?>(?:(?=)□){2})", atomic(rep2(cat(vec![e(), h0()])))),
        ("(?>(?:(?=)□){2})□'", cat(vec![atomic(rep2(cat(vec![e(), h0()]))), h1()])),
        ("(?=(?:(?=)□){2})□'", cat(vec![la(rep2(cat(vec![e(), h0()]))), h1()])),
        ("(?!(?:□(?=)){2})□'", cat(vec![nla(rep2(cat(vec![h0(), e()]))), h1()])),
        ("(?:(?=)□){2}+□'", cat(vec![rep(cat(vec![e(), h0()]), 2, Some(2), Mode::Possessive), h1()])),
        ("(?>(?:(?!x)□){2,})□'", cat(vec![atomic(rep(cat(vec![nla(x()), h0()]), 2, None, Mode::Greedy)), h1()])),
        // a hard element followed by an easy tail of two pieces inside an atomic construct: the tail
        // is one delegated piece that must be able to give characters back
        ("(?>\\b□□')", atomic(cat(vec![Node::Assert(A::WordB), h0(), h1()]))),
        ("(?=(?=)□□')□", cat(vec![la(cat(vec![e(), h0(), h1()])), h0()])),
        // an atomic group with two ways to match the same text, in a loop whose continuation fails:
        // exponential unless the group really is atomic
        ("(?:(?>□(?=)|□'))*b", cat(vec![star(atomic(alt(vec![cat(vec![h0(), e()]), h1()]))), y()])),
        // the same capturing piece twice (sub-expressions that compare equal but are different groups)
        ("(□)*(□)*", cat(vec![star(grp(h0())), star(grp(h0()))])),
        ("(□)□'|(□)a", alt(vec![cat(vec![grp(h0()), h1()]), cat(vec![grp(h0()), x()])])),
        ("(?:(□)|(□))□'", cat(vec![alt(vec![grp(h0()), grp(h0())]), h1()])),
        // an atomic construct that contains a closed atomic construct, a choice point and then a
        // conditional that takes its (empty) no-branch, followed by something that fails
        ("(?>(?>□)□'?(?(b)b|))□'", cat(vec![atomic(cat(vec![atomic(h0()), opt(h1()), cond(y(), y(), Node::Empty)])), h1()])),
        ("(?>(?=(?=)□)□'?(?(b)b|))□'", cat(vec![atomic(cat(vec![la(cat(vec![e(), h0()])), opt(h1()), cond(y(), y(), Node::Empty)])), h1()])),
        // two look-aheads inside a look-behind (nested save/restore of the position)
        ("(?<=(?=□)(?=□')□)", lb(cat(vec![la(h0()), la(h1()), h0()]))),
        // two adjacent easy pieces between two hard ones (a run of literals interpreted by the VM)
        ("(?=)□□'(?=)", cat(vec![e(), h0(), h1(), e()])),
        ("(a)□□'\\1", cat(vec![grp(x()), h0(), h1(), Node::Backref(1)])),
        // an atomic group directly around a conditional whose taken branch is hard and has a choice
        ("()(?>(?(1)□\\1))ab", cat(vec![grp(Node::Empty), atomic(condg(1, cat(vec![h0(), Node::Backref(1)]), Node::Empty)), x(), y()])),
        ("(a)?(?>(?(1)b|□(?=.)))□'", cat(vec![opt(grp(x())), atomic(condg(1, y(), cat(vec![h0(), la(Node::Dot)]))), h1()])),
        // one delegated piece with groups and an anchor in a non-final alternative
        ("(?>(□)$|(□))□'", cat(vec![atomic(alt(vec![cat(vec![grp(h0()), Node::Assert(A::End)]), grp(h0())])), h1()])),
        ("(?=(□)$|(□))□'", cat(vec![la(alt(vec![cat(vec![grp(h0()), Node::Assert(A::End)]), grp(h0())])), h1()])),
        ("(?>^(□)|(□'))□", cat(vec![atomic(alt(vec![cat(vec![Node::Assert(A::Start), grp(h0())]), grp(h1())])), h0()])),
        // a reference to an outer, still open group from inside another nested capture group, in a loop
        ("(?:((\\1)?□)□')+", plus(cat(vec![grp(cat(vec![opt(grp(Node::Backref(1))), h0()])), h1()]))),
        // a look-behind whose body starts with a literal and goes on with a hard zero-width element
        ("(?<=é\\B□)", lb(cat(vec![lit("é"), Node::Assert(A::NotWordB), h0()]))),
        ("(?<=é(?=□)□)□'", cat(vec![lb(cat(vec![lit("é"), la(h0()), h0()])), h1()])),
        // atomic / possessive
        ("(?>□)", atomic(h0())),
        ("(?>□)□'", cat(vec![atomic(h0()), h1()])),
        ("x(?>□)y", cat(vec![x(), atomic(h0()), y()])),
        ("□*+", poss_star(h0())),
        ("□?+x", cat(vec![poss_opt(h0()), x()])),
        ("(?>□|□')x", cat(vec![atomic(alt(vec![h0(), h1()])), x()])),
        // look-around
        ("(?=□)", la(h0())),
        ("(?!□)", nla(h0())),
        ("(?=□)□'", cat(vec![la(h0()), h1()])),
        ("(?!□)□'", cat(vec![nla(h0()), h1()])),
        ("□(?=□')", cat(vec![h0(), la(h1())])),
        ("(?<=□)", lb(h0())),
        ("(?<!□)", nlb(h0())),
        ("x(?<=□)", cat(vec![x(), lb(h0())])),
        ("(?<=□)□'", cat(vec![lb(h0()), h1()])),
        ("(?<=□|□')", look(Behind, alt(vec![h0(), h1()]))),
        ("(?<=x)□", cat(vec![lb(x()), h0()])),
        // a loop over a look-behind with alternatives, then a failure (a non-atomic look-behind
        // alternation multiplies the paths)
        ("(?:a(?<=□|□'))*b", cat(vec![star(cat(vec![x(), look(Behind, alt(vec![h0(), h1()]))])), y()])),
        ("(?:a(?=□|□'))*b", cat(vec![star(cat(vec![x(), la(alt(vec![h0(), h1()]))])), y()])),
        ("(?:a(?<=a|aa))*□", cat(vec![star(cat(vec![x(), look(Behind, alt(vec![lit("a"), lit("aa")]))])), h0()])),
        ("(?:.(?<=a|.a|..a))*□", cat(vec![star(cat(vec![Node::Dot, look(Behind, alt(vec![lit("a"), cat(vec![Node::Dot, lit("a")]), cat(vec![Node::Dot, Node::Dot, lit("a")])]))])), h0()])),
        ("(?:a(?<!b|bb))*□", cat(vec![star(cat(vec![x(), look(BehindNeg, alt(vec![lit("b"), lit("bb")]))])), h0()])),
        // non-atomic look-ahead probes: a look-ahead body with a backtracking point followed by
        // something that can fail
        ("(?=(□)(?=))\\1□'", cat(vec![la(cat(vec![grp(h0()), e()])), Node::Backref(1), h1()])),
        ("(?=□(?=))□'$", cat(vec![la(cat(vec![h0(), e()])), h1(), Node::Assert(A::End)])),
        // back-references
        ("(□)\\1", cat(vec![grp(h0()), Node::Backref(1)])),
        ("(□)x\\1", cat(vec![grp(h0()), x(), Node::Backref(1)])),
        ("(□)\\1*", cat(vec![grp(h0()), star(Node::Backref(1))])),
        ("(?:(□)x\\1)+", plus(cat(vec![grp(h0()), x(), Node::Backref(1)]))),
        ("(□)(□')\\2\\1", cat(vec![grp(h0()), grp(h1()), Node::Backref(2), Node::Backref(1)])),
        ("((□)□')\\2*□'", cat(vec![grp(cat(vec![grp(h0()), h1()])), star(Node::Backref(2)), h1()])),
        ("((□)□')\\1?\\2+", cat(vec![grp(cat(vec![grp(h0()), h1()])), opt(Node::Backref(1)), plus(Node::Backref(2))])),
        ("(?=(□))\\1", cat(vec![la(grp(h0())), Node::Backref(1)])),
        ("(?>□)(□')\\1", cat(vec![atomic(h0()), grp(h1()), Node::Backref(1)])),
        ("(?<=x)(□)\\1□'", cat(vec![lb(x()), grp(h0()), Node::Backref(1), h1()])),
        // many slots written in one frame, then a fallback that must see them restored
        ("(?:(□)(□)(□)(□)\\1){2}b|□'+", alt(vec![cat(vec![rep2(cat(vec![grp(h0()), grp(h0()), grp(h0()), grp(h0()), Node::Backref(1)])), y()]), plus(h1())])),
        // two cuts in one run: an atomic group inside a possessive loop
        ("(?:(□)(?>\\1|□'))*+b|a+", alt(vec![cat(vec![poss_star(cat(vec![grp(h0()), atomic(alt(vec![Node::Backref(1), h1()]))])), y()]), plus(x())])),
        ("(?:(□)|x)\\1?", cat(vec![alt(vec![grp(h0()), x()]), opt(Node::Backref(1))])),
        // self-referential back-references (unscoped: used by C05/C07/C09 only)
        ("(?:(\\1?□)□')+", plus(cat(vec![grp(cat(vec![opt(Node::Backref(1)), h0()])), h1()]))),
        ("(?:(\\1□|□)□')*", star(cat(vec![grp(alt(vec![cat(vec![Node::Backref(1), h0()]), h0()])), h1()]))),
        ("(?:(?=(\\1?□))□')+", plus(cat(vec![la(grp(cat(vec![opt(Node::Backref(1)), h0()]))), h1()]))),
        ("(?:(□\\1*)□')+", plus(cat(vec![grp(cat(vec![h0(), star(Node::Backref(1))])), h1()]))),
        // conditionals
        ("(□)?(?(1)a|b)", cat(vec![opt(grp(h0())), condg(1, x(), y())])),
        ("(□)(?(1)□'|x)", cat(vec![grp(h0()), condg(1, h1(), x())])),
        ("(?(□)a|b)", cond(h0(), x(), y())),
        ("(?(□)□')", cond(h0(), h1(), Node::Empty)),
        ("(?>(?(□)a|b))c", cat(vec![atomic(cond(h0(), x(), y())), lit("c")])),
        ("(?((?(□)a))b|a)", cond(cond(h0(), x(), Node::Empty), y(), x())),
        ("(?:(?(□)a|b))*c", cat(vec![star(cond(h0(), x(), y())), lit("c")])),
        ("(?(□)(?:a|b))", cond(h0(), alt(vec![x(), y()]), Node::Empty)),
        // conditionals that need backtracking into the group they test
        ("(?:(□)|□')(?(1)a|b)", cat(vec![alt(vec![grp(h0()), h1()]), condg(1, x(), y())])),
        ("(?:(□)|.)*(?(1)a|b)", cat(vec![star(alt(vec![grp(h0()), Node::Dot])), condg(1, x(), y())])),
        ("((□)|□')(?(2)a|b)", cat(vec![grp(alt(vec![grp(h0()), h1()])), condg(2, x(), y())])),
        // conditionals inside look-arounds / atomic groups, false path taken, later failure
        ("(é)?(?=(□)(?(1)a|))\\2□'", cat(vec![opt(grp(lit("é"))), la(cat(vec![grp(h0()), condg(1, x(), Node::Empty)])), Node::Backref(2), h1()])),
        ("(é)?(?>(□)(?=(?(1)a|)))□'", cat(vec![opt(grp(lit("é"))), atomic(cat(vec![grp(h0()), la(condg(1, x(), Node::Empty))])), h1()])),
        ("(é)?(?((?=(?(1)a|b)))□|□')", cat(vec![opt(grp(lit("é"))), cond(la(condg(1, x(), y())), h0(), h1())])),
        // loops with captures inside atomic constructs, then a failure and another alternative
        // (the undo log grows with the number of iterations)
        ("(?>(?:(□)(?=□'))*)b|a+", alt(vec![cat(vec![atomic(star(cat(vec![grp(h0()), la(h1())]))), y()]), plus(x())])),
        ("(?:(?>(□)(?!b)|□'))+?b", cat(vec![lazy_plus(atomic(alt(vec![cat(vec![grp(h0()), nla(y())]), h1()]))), y()])),
        ("(?=(?:(□)□')*)\\1*b|.", alt(vec![cat(vec![la(star(cat(vec![grp(h0()), h1()]))), star(Node::Backref(1)), y()]), Node::Dot])),
        // nested look-arounds (the inner one starts at a different position than the outer)
        ("(?=□(?=□'))", la(cat(vec![h0(), la(h1())]))),
        ("(?=□(?=□'))a", cat(vec![la(cat(vec![h0(), la(h1())])), x()])),
        ("(?<=(?=□)□')b", cat(vec![lb(cat(vec![la(h0()), h1()])), y()])),
        ("(□)(?=□'(?<=ab))b\\1", cat(vec![grp(h0()), la(cat(vec![h1(), lb(lit("ab"))])), y(), Node::Backref(1)])),
        // groups that do not participate in every match / inside a {0} repeat
        ("(□)|(□')", alt(vec![grp(h0()), grp(h1())])),
        ("(?:(?=(□))□'){0}(□)", cat(vec![rep(cat(vec![la(grp(h0())), h1()]), 0, Some(0), Mode::Greedy), grp(h0())])),
        // the same piece delegated twice (identical delegate text, different group numbers)
        ("(□)\\b(□)", cat(vec![grp(h0()), Node::Assert(A::WordB), grp(h0())])),
        ("(?<=(□))x(?=(□))", cat(vec![lb(grp(h0())), x(), la(grp(h0()))])),
        ("(?>(□))x(?>(□))", cat(vec![atomic(grp(h0())), x(), atomic(grp(h0()))])),
        ("(?=(□))(□)", cat(vec![la(grp(h0())), grp(h0())])),
        // conditional branches with several ways to match, followed by something that can fail
        ("(é)?(?(1)□|b)□'", cat(vec![opt(grp(lit("é"))), condg(1, h0(), y()), h1()])),
        ("(é)?(?(1)a|□)□'", cat(vec![opt(grp(lit("é"))), condg(1, x(), h0()), h1()])),
        ("(é)?(?>(?(1)a|□)□')", cat(vec![opt(grp(lit("é"))), atomic(cat(vec![condg(1, x(), h0()), h1()]))])),
        ("(é)?(?=(?(1)a|□)□')", cat(vec![opt(grp(lit("é"))), la(cat(vec![condg(1, x(), h0()), h1()]))])),
        ("(?(□)□'|b)a", cat(vec![cond(h0(), h1(), y()), x()])),
        // \K, \G, word boundary
        ("□\\K□'", cat(vec![h0(), Node::KeepOut, h1()])),
        ("(?<=x\\K)□", cat(vec![lb(cat(vec![x(), Node::KeepOut])), h0()])),
        ("(?<=\\K□)", lb(cat(vec![Node::KeepOut, h0()]))),
        ("(?<=\\G□)", lb(cat(vec![Node::ContG, h0()]))),
        ("(?<!\\G□)", nlb(cat(vec![Node::ContG, h0()]))),
        ("(?<=\\G□)|□'", alt(vec![lb(cat(vec![Node::ContG, h0()])), h1()])),
        ("x|(?<=\\K□)□'", alt(vec![x(), cat(vec![lb(cat(vec![Node::KeepOut, h0()])), h1()])])),
        ("(?=□\\K)□'", cat(vec![la(cat(vec![h0(), Node::KeepOut])), h1()])),
        // a leading literal, then a look-behind that reaches back to or past it with \G / \K inside
        // (the search position is visible behind the match start)
        ("□(?<=\\G□')", cat(vec![h0(), lb(cat(vec![Node::ContG, h1()]))])),
        ("□(?<=\\Kx□)", cat(vec![h0(), lb(cat(vec![Node::KeepOut, x(), h0()]))])),
        ("\\G□", cat(vec![Node::ContG, h0()])),
        ("\\G□|□'", alt(vec![cat(vec![Node::ContG, h0()]), h1()])),
        ("□|\\G□'", alt(vec![h0(), cat(vec![Node::ContG, h1()])])),
        ("(?:\\G□)?□'", cat(vec![opt(cat(vec![Node::ContG, h0()])), h1()])),
        ("(?:\\G□)*□'", cat(vec![star(cat(vec![Node::ContG, h0()])), h1()])),
        ("□\\G", cat(vec![h0(), Node::ContG])),
        ("(?:\\G□)+", plus(cat(vec![Node::ContG, h0()]))),
        ("\\b□", cat(vec![Node::Assert(A::WordB), h0()])),
        ("□\\b", cat(vec![h0(), Node::Assert(A::WordB)])),
        ("\\B□\\B", cat(vec![Node::Assert(A::NotWordB), h0(), Node::Assert(A::NotWordB)])),
        // an atomic group whose alternatives set different groups (also when they have the same
        // width), then something that depends on which alternative was committed
        ("(?>(□)|(□'))\\2", cat(vec![atomic(alt(vec![grp(h0()), grp(h1())])), Node::Backref(2)])),
        ("(?>(□)|□')(?(1)b|a)", cat(vec![atomic(alt(vec![grp(h0()), h1()])), condg(1, y(), x())])),
        ("(?>(□)|□')(?!\\1)", cat(vec![atomic(alt(vec![grp(h0()), h1()])), nla(Node::Backref(1))])),
        // a word boundary inside a group whose variable tail is followed only by anchors (or by
        // something that can fail): the tail must be able to give characters back to the anchor
        ("(\\b□)$", cat(vec![grp(cat(vec![Node::Assert(A::WordB), h0()])), Node::Assert(A::End)])),
        ("^(\\b□)$", cat(vec![Node::Assert(A::Start), grp(cat(vec![Node::Assert(A::WordB), h0()])), Node::Assert(A::End)])),
        ("(?:\\b(?:□|□'))(?m:$)", cat(vec![Node::Concat(vec![Node::Assert(A::WordB), alt(vec![h0(), h1()])]), Node::Assert(A::EndLine)])),
        ("(\\b□)□'", cat(vec![grp(cat(vec![Node::Assert(A::WordB), h0()])), h1()])),
    ];
    // an atomic group (and a look-ahead) whose only choice point is a quantified back-reference, in
    // every quantifier form the compiler lowers differently (greedy/lazy, with and without the
    // empty-iteration guard, counted), followed by something that asks for the characters back
    for (qname, lo, hi, mode) in [
        ("*", 0u32, None, Mode::Greedy),
        ("*?", 0, None, Mode::Lazy),
        ("+?", 1, None, Mode::Lazy),
        ("??", 0, Some(1u32), Mode::Lazy),
        ("{0,2}?", 0, Some(2), Mode::Lazy),
        ("{1,2}", 1, Some(2), Mode::Greedy),
    ] {
        let q = |n: Node| rep(n, lo, hi, mode);
        let name: &'static str = Box::leak(format!("(□)(?>\\1{})□'b", qname).into_boxed_str());
        v.push((name, cat(vec![grp(h0()), atomic(q(Node::Backref(1))), h1(), y()])));
        let name: &'static str = Box::leak(format!("(□)(?=(\\1{}))\\2□'b", qname).into_boxed_str());
        v.push((name, cat(vec![grp(h0()), la(grp(q(Node::Backref(1)))), Node::Backref(2), h1(), y()])));
        let name: &'static str = Box::leak(format!("(□)(?>(?:\\1|□'){})ab", qname).into_boxed_str());
        v.push((name, cat(vec![grp(h0()), atomic(q(alt(vec![Node::Backref(1), h1()]))), x(), y()])));
    }
    v.drain(..)
        .map(|(name, node)| {
            let holes = if node.any(&|n| matches!(n, Node::Hole(1))) { 2 } else { 1 };
            Context { name, node, holes }
        })
        .collect()
}
