//! The reference semantics: a continuation-passing, priority-ordered backtracking matcher over
//! the neutral IR. No VM, no delegation, no undo log: every modification of the capture vector
//! copies it. This is the oracle of C01, C02, C08, C13, C15.

use crate::ast::A;
use crate::ir::{Id, Ir, Prog};
use std::cell::{Cell, RefCell};
use std::collections::BTreeSet;

pub const MAXG: usize = 12;
const UNSET: u8 = 255;

#[derive(Clone, Copy, PartialEq, Eq, Debug)]
pub struct Caps {
    pub g: [(u8, u8); MAXG],
    /// position recorded by `\K`
    pub ko: u8,
}

impl Caps {
    pub fn new() -> Caps {
        Caps { g: [(UNSET, UNSET); MAXG], ko: UNSET }
    }
    #[inline]
    pub fn get(&self, g: usize) -> Option<(usize, usize)> {
        if g >= MAXG || self.g[g].0 == UNSET {
            None
        } else {
            Some((self.g[g].0 as usize, self.g[g].1 as usize))
        }
    }
}

impl Default for Caps {
    fn default() -> Self {
        Caps::new()
    }
}

#[derive(Clone, Debug, PartialEq, Eq)]
pub struct Found {
    /// group 0 is the reported overall span
    pub groups: Vec<Option<(usize, usize)>>,
    /// start position of the successful attempt (before `\K`)
    pub attempt_start: usize,
}

#[derive(Clone, Debug, PartialEq, Eq)]
pub enum Outcome {
    Match(Found),
    NoMatch,
    /// fuel exhausted
    Unknown,
}

#[derive(Clone, Copy, Debug, Default)]
pub struct SearchInfo {
    pub steps: u64,
    /// an optional iteration of an unbounded repeat matched the empty string somewhere in the
    /// exploration: the case is outside the domain of the reference (class F1, dynamic form)
    pub empty_iteration: bool,
    pub starts_tried: usize,
}

pub struct Matcher<'a> {
    pub prog: &'a Prog,
    pub text: &'a str,
    /// position the search started from (what `\G` compares against)
    pub pos: usize,
    /// the iterator skipped an empty match before this search (`\G` then fails)
    pub skipped: bool,
    pub fuel: u64,
    steps: Cell<u64>,
    exhausted: Cell<bool>,
    empty_iter: Cell<bool>,
    /// all-paths span recorder: (node, start, end) in bytes
    record: Option<RefCell<BTreeSet<(Id, usize, usize)>>>,
}

pub const DEFAULT_FUEL: u64 = 2_000_000;

type K<'k> = &'k mut dyn FnMut(usize, &Caps) -> bool;

impl<'a> Matcher<'a> {
    pub fn new(prog: &'a Prog, text: &'a str, pos: usize, skipped: bool) -> Matcher<'a> {
        Matcher {
            prog,
            text,
            pos,
            skipped,
            fuel: DEFAULT_FUEL,
            steps: Cell::new(0),
            exhausted: Cell::new(false),
            empty_iter: Cell::new(false),
            record: None,
        }
    }

    pub fn recording(mut self) -> Matcher<'a> {
        self.record = Some(RefCell::new(BTreeSet::new()));
        self
    }

    pub fn take_record(&mut self) -> BTreeSet<(Id, usize, usize)> {
        self.record.take().map(|r| r.into_inner()).unwrap_or_default()
    }

    #[inline]
    fn char_at(&self, i: usize) -> Option<char> {
        self.text[i..].chars().next()
    }

    #[inline]
    fn char_before(&self, i: usize) -> Option<char> {
        self.text[..i].chars().next_back()
    }

    fn is_word(c: Option<char>) -> bool {
        match c {
            Some(c) => c.is_alphanumeric() || c == '_',
            None => false,
        }
    }

    fn assertion(&self, a: A, i: usize) -> bool {
        let len = self.text.len();
        match a {
            A::Start | A::BigA => i == 0,
            A::End | A::SmallZ => i == len,
            A::StartLine => i == 0 || self.text.as_bytes()[i - 1] == b'\n',
            A::EndLine => i == len || self.text.as_bytes()[i] == b'\n',
            A::BigZ => self.text.as_bytes()[i..].iter().all(|&b| b == b'\n'),
            A::WordB => Self::is_word(self.char_before(i)) != Self::is_word(self.char_at(i)),
            A::NotWordB => Self::is_word(self.char_before(i)) == Self::is_word(self.char_at(i)),
        }
    }

    fn m(&self, id: Id, i: usize, caps: &Caps, k: K) -> bool {
        if self.exhausted.get() {
            return false;
        }
        let s = self.steps.get() + 1;
        self.steps.set(s);
        if s > self.fuel {
            self.exhausted.set(true);
            return false;
        }
        if let Some(rec) = &self.record {
            let mut k2 = |j: usize, c: &Caps| {
                rec.borrow_mut().insert((id, i, j));
                k(j, c)
            };
            self.m_inner(id, i, caps, &mut k2)
        } else {
            self.m_inner(id, i, caps, k)
        }
    }

    fn first(&self, id: Id, i: usize, caps: &Caps) -> Option<(usize, Caps)> {
        let mut res = None;
        self.m(id, i, caps, &mut |j, c| {
            res = Some((j, *c));
            true
        });
        res
    }

    fn m_inner(&self, id: Id, i: usize, caps: &Caps, k: K) -> bool {
        match &self.prog.nodes[id] {
            Ir::Empty => k(i, caps),
            Ir::Char(p) => match self.char_at(i) {
                Some(c) if p.matches(c) => k(i + c.len_utf8(), caps),
                _ => false,
            },
            Ir::Assert(a) => self.assertion(*a, i) && k(i, caps),
            Ir::KeepOut => {
                let mut c = *caps;
                c.ko = i as u8;
                k(i, &c)
            }
            Ir::ContG => i == self.pos && !self.skipped && k(i, caps),
            Ir::Backref(g) => match caps.get(*g) {
                None => false,
                Some((s, e)) => {
                    if s > e {
                        return false;
                    }
                    let r = &self.text.as_bytes()[s..e];
                    let end = i + r.len();
                    if end <= self.text.len() && &self.text.as_bytes()[i..end] == r {
                        k(end, caps)
                    } else {
                        false
                    }
                }
            },
            Ir::CondExists(g) => caps.get(*g).is_some() && k(i, caps),
            Ir::Group(g, c) => {
                let g = *g;
                self.m(*c, i, caps, &mut |j, c2| {
                    let mut c3 = *c2;
                    if g < MAXG {
                        c3.g[g] = (i as u8, j as u8);
                    }
                    k(j, &c3)
                })
            }
            Ir::Atomic(c) => match self.first(*c, i, caps) {
                Some((j, c2)) => k(j, &c2),
                None => false,
            },
            Ir::LookAhead { neg, body } => match self.first(*body, i, caps) {
                Some((_, c2)) => !*neg && k(i, &c2),
                None => *neg && k(i, caps),
            },
            Ir::LookBehind { neg, alts } => {
                for &(alt, len) in alts {
                    // candidate start positions: exactly `len` characters back (fail rather
                    // than read before the start), or every position <= i for a variable
                    // length alternative (nearest first)
                    let mut starts = Vec::new();
                    match len {
                        Some(len) => {
                            let mut j = i;
                            let mut ok = true;
                            for _ in 0..len {
                                match self.char_before(j) {
                                    Some(c) => j -= c.len_utf8(),
                                    None => {
                                        ok = false;
                                        break;
                                    }
                                }
                            }
                            if ok {
                                starts.push(j);
                            }
                        }
                        None => {
                            let mut j = i;
                            starts.push(j);
                            while let Some(c) = self.char_before(j) {
                                j -= c.len_utf8();
                                starts.push(j);
                            }
                        }
                    }
                    for j in starts {
                        let mut res = None;
                        self.m(alt, j, caps, &mut |e, c| {
                            if e == i {
                                res = Some(*c);
                                true
                            } else {
                                false
                            }
                        });
                        if let Some(c2) = res {
                            return !*neg && k(i, &c2);
                        }
                    }
                }
                *neg && k(i, caps)
            }
            Ir::Repeat { child, lo, hi, greedy } => self.rep(*child, *lo, *hi, *greedy, 0, i, caps, k),
            Ir::Concat(v) => self.seq(v, 0, i, caps, k),
            Ir::Alt(v) => {
                for &a in v {
                    if self.m(a, i, caps, k) {
                        return true;
                    }
                }
                false
            }
            Ir::CondGroup { group, yes, no } => {
                if caps.get(*group).is_some() {
                    self.m(*yes, i, caps, k)
                } else {
                    self.m(*no, i, caps, k)
                }
            }
            Ir::Cond { cond, yes, no } => match self.first(*cond, i, caps) {
                Some((j, c2)) => self.m(*yes, j, &c2, k),
                None => self.m(*no, i, caps, k),
            },
            Ir::OpaqueSuffix(re) => match re.find(&self.text[i..]) {
                Some(mm) if mm.start() == 0 => k(i + mm.end(), caps),
                _ => false,
            },
        }
    }

    fn seq(&self, v: &[Id], idx: usize, i: usize, caps: &Caps, k: K) -> bool {
        if idx == v.len() {
            return k(i, caps);
        }
        self.m(v[idx], i, caps, &mut |j, c| self.seq(v, idx + 1, j, c, k))
    }

    #[allow(clippy::too_many_arguments)]
    fn rep(&self, child: Id, lo: u32, hi: Option<u32>, greedy: bool, count: u32, i: usize, caps: &Caps, k: K) -> bool {
        if count < lo {
            // mandatory iterations: plain unrolling, an empty iteration is allowed and counts
            return self.m(child, i, caps, &mut |j, c| self.rep(child, lo, hi, greedy, count + 1, j, c, k));
        }
        let can_more = hi.map_or(true, |h| count < h);
        if greedy {
            if can_more
                && self.m(child, i, caps, &mut |j, c| {
                    if hi.is_none() && j == i {
                        // outside the model's domain (class F1): flag and cut the loop
                        self.empty_iter.set(true);
                        return false;
                    }
                    self.rep(child, lo, hi, greedy, count + 1, j, c, k)
                })
            {
                return true;
            }
            k(i, caps)
        } else {
            if k(i, caps) {
                return true;
            }
            can_more
                && self.m(child, i, caps, &mut |j, c| {
                    if hi.is_none() && j == i {
                        self.empty_iter.set(true);
                        return false;
                    }
                    self.rep(child, lo, hi, greedy, count + 1, j, c, k)
                })
        }
    }

    /// Leftmost search from `self.pos`.
    pub fn search(&self) -> (Outcome, SearchInfo) {
        let mut info = SearchInfo::default();
        let text = self.text;
        let mut s = self.pos;
        let mut result = Outcome::NoMatch;
        loop {
            info.starts_tried += 1;
            let caps = Caps::new();
            let mut res: Option<(usize, Caps)> = None;
            self.m(self.prog.root, s, &caps, &mut |j, c| {
                res = Some((j, *c));
                true
            });
            if self.exhausted.get() {
                result = Outcome::Unknown;
                break;
            }
            if let Some((end, c)) = res {
                let mut start = if c.ko != UNSET { c.ko as usize } else { s };
                // the engine's documented cap (start <= end) and its mirror (start >= pos)
                if start > end {
                    start = end;
                }
                if start < self.pos {
                    start = self.pos;
                }
                let mut groups = vec![Some((start, end))];
                for g in 1..=self.prog.n_groups {
                    groups.push(c.get(g));
                }
                result = Outcome::Match(Found { groups, attempt_start: s });
                break;
            }
            if s >= text.len() {
                break;
            }
            s += text[s..].chars().next().map(|c| c.len_utf8()).unwrap_or(1);
        }
        info.steps = self.steps.get();
        info.empty_iteration = self.empty_iter.get();
        (result, info)
    }

    /// Explore *all* paths from every start position (the final continuation answers "fail")
    /// so that the recorder sees every span every node can match in context.
    pub fn explore_all(&self) -> SearchInfo {
        let mut s = self.pos;
        loop {
            let caps = Caps::new();
            self.m(self.prog.root, s, &caps, &mut |_, _| false);
            if self.exhausted.get() || s >= self.text.len() {
                break;
            }
            s += self.text[s..].chars().next().map(|c| c.len_utf8()).unwrap_or(1);
        }
        SearchInfo { steps: self.steps.get(), empty_iteration: self.empty_iter.get(), starts_tried: 0 }
    }

    pub fn exhausted(&self) -> bool {
        self.exhausted.get()
    }
}

/// Convenience: leftmost search.
pub fn search(prog: &Prog, text: &str, pos: usize, skipped: bool) -> (Outcome, SearchInfo) {
    Matcher::new(prog, text, pos, skipped).search()
}
