//! C19: equivalent spellings of a pattern behave identically.

use crate::common::*;
use crate::engine::{self, Out};
use crate::kf;
use crate::refsweep::weight;
use crate::spaces::{self, Space};
use frmc_core::ast::{self, lit, Mode, Naming, Node, A};
use frmc_core::jobj;
use frmc_core::par;
use frmc_core::space;

/// Token boundaries of a pattern printed by the harness printer: byte offsets at which free
/// spacing / comments may be inserted (before atoms, group openers, `)`, `|` and quantifiers;
/// never inside a class, an escape, a group opener or between a quantifier and its modifier).
fn boundaries(p: &str) -> Vec<usize> {
    let b = p.as_bytes();
    let mut out = vec![0];
    let mut i = 0;
    while i < b.len() {
        let start = i;
        match b[i] {
            b'\\' => {
                i += 2;
                if start + 1 < b.len() && b[start + 1] == b'k' {
                    // \k<..> or \k'..'
                    let close = if b.get(i) == Some(&b'<') { b'>' } else { b'\'' };
                    i += 1;
                    while i < b.len() && b[i] != close {
                        i += 1;
                    }
                    i += 1;
                } else if start + 1 < b.len() && (b[start + 1] == b'x' || b[start + 1] == b'u' || b[start + 1] == b'U') {
                    if b.get(i) == Some(&b'{') {
                        while i < b.len() && b[i] != b'}' {
                            i += 1;
                        }
                        i += 1;
                    } else {
                        i += match b[start + 1] {
                            b'x' => 2,
                            b'u' => 4,
                            _ => 8,
                        };
                    }
                } else if start + 1 < b.len() && b[start + 1] >= 0x80 {
                    while i < b.len() && (b[i] & 0xC0) == 0x80 {
                        i += 1;
                    }
                }
            }
            b'[' => {
                while i < b.len() && b[i] != b']' {
                    i += 1;
                }
                i += 1;
            }
            b'(' => {
                i += 1;
                if b.get(i) == Some(&b'?') {
                    i += 1;
                    // opener: up to and including ':' '=' '!' '>' or the name's '>' / the flag's ')' / '('
                    if b.get(i) == Some(&b'(') {
                        // conditional: (?(N) or (?(<n>) or (?('n') or (?(cond)
                        i += 1;
                        if b.get(i).map_or(false, |c| c.is_ascii_digit() || *c == b'<' || *c == b'\'') {
                            while i < b.len() && b[i] != b')' {
                                i += 1;
                            }
                            i += 1;
                        }
                    } else if b.get(i) == Some(&b'P') && b.get(i + 1) == Some(&b'=') {
                        while i < b.len() && b[i] != b')' {
                            i += 1;
                        }
                        i += 1;
                    } else if b.get(i) == Some(&b'<') && b.get(i + 1) != Some(&b'=') && b.get(i + 1) != Some(&b'!') || b.get(i) == Some(&b'P') {
                        while i < b.len() && b[i] != b'>' {
                            i += 1;
                        }
                        i += 1;
                    } else {
                        while i < b.len() && !matches!(b[i], b':' | b'=' | b'!' | b'>' | b')') {
                            i += 1;
                        }
                        i += 1;
                    }
                }
            }
            b'{' => {
                while i < b.len() && b[i] != b'}' {
                    i += 1;
                }
                i += 1;
                if matches!(b.get(i), Some(b'?') | Some(b'+')) {
                    i += 1;
                }
            }
            b'*' | b'+' | b'?' => {
                i += 1;
                if matches!(b.get(i), Some(b'?') | Some(b'+')) {
                    i += 1;
                }
            }
            c if c >= 0x80 => {
                i += 1;
                while i < b.len() && (b[i] & 0xC0) == 0x80 {
                    i += 1;
                }
            }
            _ => i += 1,
        }
        out.push(i.min(b.len()));
    }
    out.dedup();
    out
}

fn insert_at(p: &str, at: &[usize], filler: &str) -> String {
    let mut out = String::new();
    let mut last = 0;
    for &a in at {
        out.push_str(&p[last..a]);
        out.push_str(filler);
        last = a;
    }
    out.push_str(&p[last..]);
    out
}

/// AST-level respellings: returns (name, respelled node) for every applicable site / all sites
fn ast_respellings(n: &Node) -> Vec<(&'static str, Node)> {
    let mut out = Vec::new();
    // generic "rewrite every node matching f" helper
    fn map(n: &Node, f: &dyn Fn(&Node) -> Option<Node>) -> Node {
        if let Some(r) = f(n) {
            return r;
        }
        let mut m = n.clone();
        for c in m.children_mut() {
            let nc = map(c, f);
            *c = nc;
        }
        m
    }
    let raw = |s: &str| Node::Raw(s.to_string(), 1);
    let hexes: [(&'static str, &dyn Fn(char) -> String); 4] = [
        ("T5 \\xHH", &|c| format!("\\x{:02X}", c as u32)),
        ("T5 \\x{H}", &|c| format!("\\x{{{:X}}}", c as u32)),
        ("T5 \\uHHHH", &|c| format!("\\u{:04X}", c as u32)),
        ("T5 \\UHHHHHHHH", &|c| format!("\\U{:08X}", c as u32)),
    ];
    for (name, f) in hexes {
        let r = map(n, &|x| match x {
            Node::Lit(s) if s.chars().count() == 1 && (name != "T5 \\xHH" || (s.chars().next().unwrap() as u32) < 256) && s != "\n" => Some(raw(&f(s.chars().next().unwrap()))),
            _ => None,
        });
        if &r != n {
            out.push((name, r));
        }
    }
    // ^ and $ are \A and \z only outside multi-line mode
    let multiline = n.any(&|x| matches!(x, Node::Flag(f) | Node::FlagGroup(f, _) if f.contains('m')));
    let r = map(n, &|x| match x {
        _ if multiline => None,
        Node::Assert(A::Start) => Some(Node::Assert(A::BigA)),
        Node::Assert(A::End) => Some(Node::Assert(A::SmallZ)),
        _ => None,
    });
    if &r != n {
        out.push(("T5 ^ $ -> \\A \\z", r));
    }
    // ... and inside multi-line mode \A and \z stay text anchors: \A <-> (?-m:^), \z <-> (?-m:$)
    let r = map(n, &|x| match x {
        Node::Assert(A::BigA) if multiline => Some(Node::FlagGroup("-m".into(), Box::new(Node::Assert(A::Start)))),
        Node::Assert(A::SmallZ) if multiline => Some(Node::FlagGroup("-m".into(), Box::new(Node::Assert(A::End)))),
        _ => None,
    });
    if &r != n {
        out.push(("T5 (?m) \\A \\z -> (?-m:^) (?-m:$)", r));
    }
    let r = map(n, &|x| match x {
        Node::Repeat(c, lo, hi, Mode::Possessive) => Some(ast::atomic(ast::rep((**c).clone(), *lo, *hi, Mode::Greedy))),
        _ => None,
    });
    if &r != n {
        out.push(("T6 possessive -> atomic", r));
    }
    let r = map(n, &|x| match x {
        Node::FlagGroup(f, c) if !f.is_empty() => Some(Node::FlagGroup(String::new(), Box::new(ast::cat(vec![Node::Flag(format!("(?{})", f)), (**c).clone()])))),
        _ => None,
    });
    if &r != n {
        out.push(("T4 (?f:X) -> (?:(?f)X)", r));
    }
    // D14 shape: an inline flag at the start of a capture group / look-around / atomic group
    let r = map(n, &|x| {
        let respell = |c: &Node| -> Option<Node> {
            if let Node::Concat(v) = c {
                if let Node::Flag(f) = &v[0] {
                    let flags = f.trim_start_matches("(?").trim_end_matches(')').to_string();
                    return Some(Node::FlagGroup(flags, Box::new(ast::cat(v[1..].to_vec()))));
                }
            }
            None
        };
        match x {
            Node::Group(c) => respell(c).map(|r| ast::grp(r)),
            Node::Atomic(c) => respell(c).map(|r| ast::atomic(r)),
            Node::Look(k, c) => respell(c).map(|r| ast::look(*k, r)),
            _ => None,
        }
    });
    if &r != n {
        out.push(("T4 ((?f)X) -> ((?f:X))", r));
    }
    out
}

fn flag_patterns() -> Vec<Node> {
    let mut v = Vec::new();
    for f in ["i", "s", "m", "U", "x", "-i"] {
        for x in [lit("a"), Node::Dot, lit("A"), Node::Assert(A::End), ast::star(lit("a"))] {
            for y in [lit("a"), Node::Dot, lit("b"), Node::Assert(A::End), ast::plus(lit("A"))] {
                let fg = Node::FlagGroup(f.to_string(), Box::new(x.clone()));
                v.push(ast::cat(vec![fg.clone(), y.clone()]));
                v.push(ast::cat(vec![y.clone(), fg.clone()]));
                v.push(ast::cat(vec![ast::la(fg.clone()), y.clone()]));
                // inline flag inside a capturing / atomic / look-ahead group (KF-FLAG-SCOPE shape)
                let inner = ast::cat(vec![Node::Flag(format!("(?{})", f)), x.clone()]);
                v.push(ast::cat(vec![ast::grp(inner.clone()), y.clone()]));
                v.push(ast::cat(vec![ast::atomic(inner.clone()), y.clone()]));
                v.push(ast::cat(vec![ast::la(inner.clone()), y.clone()]));
            }
        }
    }
    // \A and \z inside multi-line mode
    for x in [lit("a"), Node::Dot, lit("b")] {
        v.push(Node::FlagGroup("m".into(), Box::new(ast::cat(vec![Node::Assert(A::BigA), x.clone()]))));
        v.push(Node::FlagGroup("m".into(), Box::new(ast::cat(vec![x.clone(), Node::Assert(A::SmallZ)]))));
        v.push(Node::FlagGroup("m".into(), Box::new(ast::cat(vec![Node::Assert(A::Start), x.clone(), Node::Assert(A::SmallZ)]))));
        v.push(ast::cat(vec![ast::la(Node::FlagGroup("m".into(), Box::new(ast::cat(vec![Node::Assert(A::BigA), x.clone()])))), Node::Dot]));
        v.push(Node::FlagGroup("m".into(), Box::new(ast::cat(vec![ast::grp(x.clone()), lit("\n"), Node::Assert(A::BigA), Node::Backref(1)]))));
    }
    // \h / \H inside classes
    for c in ["[x\\H]", "[^\\H]", "[\\H]", "[x\\h]", "[^x\\h]", "[\\d\\H]"] {
        v.push(Node::Raw(c.to_string(), 1));
        v.push(ast::plus(Node::Raw(c.to_string(), 1)));
        v.push(ast::cat(vec![ast::grp(Node::Raw(c.to_string(), 1)), Node::Backref(1)]));
    }
    // \h and \e
    v.push(Node::Raw("\\h".into(), 1));
    v.push(ast::cat(vec![Node::Raw("\\h".into(), 1), lit("a")]));
    v.push(ast::plus(Node::Raw("\\e".into(), 1)));
    v
}

pub fn run_c19(cx: &Ctx) -> i32 {
    let k = if cx.quick() { 3 } else { 4 };
    let mut atoms = space::core_atoms();
    atoms.push(Node::CondExists(1));
    atoms.push(Node::Assert(A::BigZ));
    let mut g = space::fancy_grammar(atoms);
    g.cond_group = true;
    g.cond_expr = true;
    let space = Space::new().exh("core+conditionals", g, k).ctxfill(2, 1, &|c| c.name.contains('\\') || c.name.contains("(?(")).list("flags-and-escapes", flag_patterns());
    let alphabet = vec!['a', 'A', 'b', '\n'];
    let max_len = 2;
    let texts = space::texts(&alphabet, max_len);
    let hex_texts: Vec<String> = vec!["", "a", "f", "F", "g", "9", "\u{1b}", "\u{1b}\u{1b}a", "xa", "Ga", "^", "g^5", "x", "gg", "5g", "^^"].into_iter().map(String::from).collect();
    let tallies = par::run_workers(32, |_w, claimer| {
        engine::quiet_panics();
        engine::set_sweep_horizons(40_000, 5_000);
        let mut t = Tally::new();
        space.for_each(claimer, &mut |node, tag| {
            let facts = ast::facts(node);
            if !facts.refs_valid {
                return;
            }
            let pattern = ast::to_pattern(node);
            let base = match engine::compile(&pattern) {
                Ok(r) => r,
                Err(_) => return,
            };
            let base_tree = match fancy_regex::Expr::parse_tree(&pattern) {
                Ok(tr) => tr,
                Err(_) => return,
            };
            t.programs += 1;
            let has_flag_atom = node.any(&|n| matches!(n, Node::Flag(_)));
            let has_raw = node.any(&|n| matches!(n, Node::Raw(..)));
            let my_texts = if has_raw { &hex_texts } else { &texts };
            // ---- variants: (transformer, spelled pattern, compare trees?)
            let mut variants: Vec<(String, String, bool)> = Vec::new();
            let bs = boundaries(&pattern);
            // T1: free spacing under (?x) -- the base must not contain characters that change meaning under x
            let x_safe = !pattern.contains(' ') && !pattern.contains('#');
            if x_safe {
                for (fname, filler) in [("blank", " "), ("newline", "\n"), ("comment", "# c\n"), ("two blanks", "  "), ("newline+blank", "\n "), ("three blanks", "   ")] {
                    for &b in &bs {
                        variants.push((format!("T1 (?x) {} at {}", fname, b), format!("(?x){}", insert_at(&pattern, &[b], filler)), true));
                    }
                    variants.push((format!("T1 (?x) {} everywhere", fname), format!("(?x){}", insert_at(&pattern, &bs, filler)), true));
                }
            }
            // T2: (?#c) comments
            for &b in &bs {
                variants.push((format!("T2 (?#c) at {}", b), insert_at(&pattern, &[b], "(?#c)"), true));
            }
            variants.push(("T2 (?#c) everywhere".into(), insert_at(&pattern, &bs, "(?#c)"), true));
            // comment bodies with escapes, multi-byte characters and syntax characters
            for body in ["(?#)", "(?#\\é)", "(?#é\\)x)", "(?#😀\\\\)", "(?# [(|*+?{\\) )", "(?#\\€\\😀)", "(?#\\\\\\))", "(?#\\\\\\)(x)", "(?#a\\\\\\\\\\)b)"] {
                variants.push((format!("T2 {} everywhere", body), insert_at(&pattern, &bs, body), true));
                if let Some(&b) = bs.first() {
                    variants.push((format!("T2 {} at {}", body, b), insert_at(&pattern, &[b], body), true));
                }
            }
            // T3: numbered <-> named / relative / numeric-name references
            if facts.n_groups >= 1 {
                for (nm, naming) in [("T3 (?<n>) \\k<n>", Naming::Angle), ("T3 (?P<n>) (?P=n)", Naming::Python), ("T3 \\k'n'", Naming::Quote)] {
                    variants.push((nm.into(), ast::to_pattern_named(node, naming), true));
                }
                for (nm, naming) in [("T3 (?<n>) \\k<n> with non-ASCII names", Naming::Angle), ("T3 (?P<n>) (?P=n) with non-ASCII names", Naming::Python), ("T3 \\k'n' with non-ASCII names", Naming::Quote)] {
                    variants.push((nm.into(), ast::to_pattern_unicode_names(node, naming), true));
                }
                if facts.has_backref && !facts.has_cond {
                    variants.push(("T3 relative \\k<-n>".into(), ast::to_pattern_named(node, Naming::Relative), true));
                    variants.push(("T3 numeric name \\k<N>".into(), ast::to_pattern_named(node, Naming::NumericName), true));
                }
            }
            // T4 leading flag <-> enclosing flag group
            for f in ["i", "s", "m", "U"] {
                let a = format!("(?{}){}", f, pattern);
                let b = format!("(?{}:{})", f, pattern);
                variants.push((format!("T4 leading (?{}) vs (?{}:..) [pair]", f, f), format!("{}\u{0}{}", a, b), true));
            }
            // T7 quantifier spellings: ? * + {n} <-> {0,1} {0,} {1,} {n,n}
            if node.any(&|n| matches!(n, Node::Repeat(..))) {
                variants.push(("T7 ? * + {n} -> {0,1} {0,} {1,} {n,n}".into(), ast::to_pattern_verbose_quantifiers(node), true));
            }
            // T5 \Z <-> (?=\n*\z): same results (the trees differ by construction)
            if pattern.contains("\\Z") {
                variants.push(("T5 \\Z -> (?=\\n*\\z)".into(), pattern.replace("\\Z", "(?=\\n*\\z)"), false));
            }
            // T4/T5/T6 AST-level
            for (nm, r) in ast_respellings(node) {
                let rp = ast::to_pattern(&r);
                // possessive <-> atomic must also hold under a leading flag (swap-greed changes what
                // the quantifier inside means, for both spellings alike)
                if nm.starts_with("T6") {
                    for f in ["U", "i", "s"] {
                        variants.push((format!("{} under (?{}) [pair]", nm, f), format!("(?{}){}{}(?{}){}", f, pattern, '\u{0}', f, rp), true));
                    }
                }
                variants.push((nm.to_string(), rp, true));
            }
            if node.any(&|n| matches!(n, Node::Repeat(..))) {
                variants.push(("T7 quantifier spellings under (?U) [pair]".into(), format!("(?U){}{}(?U){}", pattern, '\u{0}', ast::to_pattern_verbose_quantifiers(node)), true));
            }
            if has_raw && !pattern.contains("[") {
                let r = pattern.replace("\\h", "[0-9A-Fa-f]").replace("\\e", "\\x1B");
                variants.push(("T5 \\h \\e expansions".into(), r, true));
            }
            // \h and \H inside a character class
            for (a, b) in [("[x\\H]", "[x[^0-9A-Fa-f]]"), ("[^\\H]", "[^[^0-9A-Fa-f]]"), ("[\\H]", "[[^0-9A-Fa-f]]"), ("[x\\h]", "[x[0-9A-Fa-f]]"), ("[^x\\h]", "[^x[0-9A-Fa-f]]"), ("[\\d\\H]", "[\\d[^0-9A-Fa-f]]")] {
                if pattern.contains(a) {
                    variants.push(("T5 \\h \\H inside a class".into(), pattern.replace(a, b), true));
                }
            }
            for (tname, spelled, cmp_tree) in variants {
                // a "pair" variant compares two respellings with each other instead of with the base
                let (lhs_pat, rhs_pat) = match spelled.split_once('\u{0}') {
                    Some((a, b)) => (a.to_string(), b.to_string()),
                    None => (pattern.clone(), spelled.clone()),
                };
                let lhs_is_base = lhs_pat == pattern;
                let lhs_tree_owned;
                let lhs_tree = if lhs_is_base {
                    &base_tree
                } else {
                    lhs_tree_owned = match fancy_regex::Expr::parse_tree(&lhs_pat) {
                        Ok(t) => t,
                        Err(_) => continue,
                    };
                    &lhs_tree_owned
                };
                t.evaluations += 1;
                let mut report = |t: &mut Tally, text: &str, pos: usize, exp: String, got: String, recheck: &dyn Fn(&fancy_regex::Regex, &fancy_regex::Regex) -> bool| {
                    if has_flag_atom {
                        if let (Some(a), Some(b)) = (kf::compile_flag_scope_repaired(&lhs_pat), kf::compile_flag_scope_repaired(&rhs_pat)) {
                            if recheck(&a, &b) {
                                t.known(kf::KF_FLAG_SCOPE, || jobj! {"pattern" => lhs_pat.as_str(), "respelled" => rhs_pat.as_str(), "transformer" => tname.as_str(), "text" => text, "expected" => exp.as_str(), "observed" => got.as_str()});
                                return;
                            }
                        }
                    }
                    t.violation(
                        weight(&rhs_pat, text),
                        jobj! {"kind" => "c19", "pattern" => lhs_pat.as_str(), "respelled" => rhs_pat.as_str(), "transformer" => tname.as_str(), "text" => text, "pos" => pos, "expected" => exp.as_str(), "observed" => got.as_str(),
                        "summary" => format!("{}: /{}/ vs /{}/ on {:?} (pos {}): {} vs {}", tname, lhs_pat, rhs_pat, text, pos, exp, got)},
                    );
                };
                let rhs_tree = match fancy_regex::Expr::parse_tree(&rhs_pat) {
                    Ok(tr) => tr,
                    Err(e) => {
                        report(&mut t, "", 0, "parses".into(), format!("does not parse: {}", engine::err_kind(&e)), &|_, _| false);
                        continue;
                    }
                };
                if cmp_tree && (lhs_tree.expr != rhs_tree.expr || lhs_tree.backrefs != rhs_tree.backrefs) {
                    let (le, re_) = (format!("{:?}", lhs_tree.expr), format!("{:?}", rhs_tree.expr));
                    let (lp, rp) = (lhs_pat.clone(), rhs_pat.clone());
                    report(&mut t, "", 0, le, re_, &move |_, _| {
                        fancy_regex::verif::set_flag_scope_repair(true);
                        let a = fancy_regex::Expr::parse_tree(&lp);
                        let b = fancy_regex::Expr::parse_tree(&rp);
                        fancy_regex::verif::set_flag_scope_repair(false);
                        matches!((a, b), (Ok(a), Ok(b)) if a.expr == b.expr)
                    });
                    continue;
                }
                t.count("trees_equal", 1);
                // identical search results, always
                let lhs_re_owned;
                let lhs_re = if lhs_is_base {
                    &base
                } else {
                    lhs_re_owned = match engine::compile(&lhs_pat) {
                        Ok(r) => r,
                        Err(_) => continue,
                    };
                    &lhs_re_owned
                };
                let rhs_re = match engine::compile(&rhs_pat) {
                    Ok(r) => r,
                    Err(e) => {
                        report(&mut t, "", 0, "compiles".into(), format!("does not compile: {:?}", e), &|_, _| false);
                        continue;
                    }
                };
                for text in my_texts.iter() {
                    for pos in space::offsets(text) {
                        t.evaluations += 1;
                        let a = engine::captures_at(lhs_re, text, pos);
                        let b = engine::captures_at(&rhs_re, text, pos);
                        if a != b && !matches!(a, Out::Panic(_)) && !matches!(b, Out::Panic(_)) {
                            report(&mut t, text, pos, a.short(), b.short(), &|x, y| engine::captures_at(x, text, pos) == engine::captures_at(y, text, pos));
                        } else if matches!(a, Out::Match(_)) {
                            t.nontrivial += 1;
                            t.sample(6, || jobj! {"transformer" => tname.as_str(), "pattern" => lhs_pat.as_str(), "respelled" => rhs_pat.as_str(), "text" => text.as_str(), "pos" => pos, "result" => a.short(), "space" => tag});
                        }
                    }
                }
            }
        });
        t
    });
    let t = Tally::merge_all(tallies);
    finish(
        cx,
        t,
        Finish {
            rule: format!(
                "every pattern of {} x respelling transformers, each at every applicable site and at all sites at once: T1 free spacing under (?x) (blank, newline, '# c\\n' at every token boundary), T2 (?#c) comments (also with empty, escaped, multi-byte and syntax-character bodies) at every token boundary, T3 numbered <-> named groups with \\k<n>, (?P=n), \\k'n', relative \\k<-n>, numeric names \\k<N> and named conditions, T4 scoped flag groups <-> inline flags ((?f:X) <-> (?:(?f)X), leading (?f) <-> enclosing (?f:..), ((?f)X) <-> ((?f:X))), T5 \\h, \\e, \\A, \\z, \\xHH, \\x{{H}}, \\uHHHH, \\UHHHHHHHH versus their expansions, T6 possessive quantifier <-> atomic group, T7 quantifier spellings (? * + and exact counts written as explicit lo,hi ranges), \\Z <-> (?=\\n*\\z) (results only); oracle: (i) Expr::parse_tree results equal (derived PartialEq on the tree and the backreference set), (ii) identical captures_from_pos on every text over {:?} up to length {} and every offset; non-trivial = compared cases with a match",
                space.describe(), alphabet, max_len
            ),
            exhaustive: true,
            bounds: jobj! {"space" => space.describe(), "max_text_len" => max_len, "node_bound" => k},
            assumptions: vec!["whitespace is inserted only where the documentation defines it as insignificant: not inside classes, escapes or group openers, nor between a quantifier and its lazy/possessive modifier".into()],
            extra: vec![],
        },
    )
}
