//! C04: on the syntax shared with the regex crate the whole API agrees with it.

use crate::common::*;
use crate::casefold;
use crate::counts;
use crate::engine::{self, CompileFail, Out};
use crate::kf;
use crate::refsweep::weight;
use crate::spaces::Space;
use frmc_core::ast::{self, Naming, Node};
use frmc_core::jobj;
use frmc_core::par;
use frmc_core::space;
use std::panic::{catch_unwind, AssertUnwindSafe};

fn rx_groups(c: &regex::Captures) -> Vec<Option<(usize, usize)>> {
    (0..c.len()).map(|i| c.get(i).map(|m| (m.start(), m.end()))).collect()
}

fn rx_at(re: &regex::Regex, text: &str, pos: usize) -> Out {
    match re.captures_at(text, pos) {
        Some(c) => Out::Match(rx_groups(&c)),
        None => Out::NoMatch,
    }
}

const TEMPLATES: &[&str] = &["x", "$0$0", "[$1]", "${g1}", "$$", "$1a"];

pub fn run_c04(cx: &Ctx) -> i32 {
    let k = if cx.quick() { 3 } else { 4 };
    let mut g = space::common_grammar();
    // inline flag directives as atoms at any position (incl. inside groups)
    let flag_atoms: &[&str] = if cx.quick() { &["(?i)", "(?s)"] } else { &["(?i)", "(?s)", "(?m)", "(?x)", "(?U)", "(?-i)"] };
    for f in flag_atoms {
        g.atoms.push(Node::Flag(f.to_string()));
    }
    g.atoms.push(ast::lit("A"));
    // character classes in their various spellings (copied verbatim into delegated regexes)
    let class_atoms: &[&str] = if cx.quick() { &["[a-b]", "\\s", "[^\\n]", "[A\\-b]", "[a\\&&b]"] } else { &["[a\\&&b]", "[a\\~\\~b]", "[\\x26\\x26a]", "[a-b]", "\\s", "[^\\n]", "\\d", "[\\w&&[^a]]", "[[:alpha:]]", "[a[^b]]", "\\pL", "\\p{Lu}", "[\\]a]", "[]a]", "\\S", "\\W", "[\\x61-\\x62]", "[A\\-b]", "[+\\-*/a]", "[\\w\\-.]", "[a\\&b]", "[a\\~b]", "[A\\x2db]"] };
    for c in class_atoms {
        g.atoms.push(Node::Raw(c.to_string(), 1));
    }
    // inline flags inside a capture group followed by something outside it need 6 nodes: listed
    let mut scoped = Vec::new();
    for f in ["(?i)", "(?s)", "(?m)", "(?x)", "(?U)", "(?-i)"] {
        for x in [ast::lit("a"), Node::Dot, ast::lit("A"), Node::Assert(ast::A::End), ast::lit(" ")] {
            for y in [ast::lit("a"), Node::Dot, ast::lit("b"), Node::Assert(ast::A::End), ast::rep(ast::lit("a"), 1, None, ast::Mode::Greedy), ast::lit(" ")] {
                let inner = ast::cat(vec![Node::Flag(f.to_string()), x.clone()]);
                scoped.push(ast::cat(vec![ast::grp(inner.clone()), y.clone()]));
                scoped.push(ast::cat(vec![ast::star(ast::grp(inner.clone())), y.clone()]));
                scoped.push(ast::cat(vec![ast::grp(ast::alt(vec![inner.clone(), ast::lit("b")])), y.clone()]));
            }
        }
    }
    for class in ["[ab]", "[^a]", "\\w", "[a-b]"] {
        let c = || Node::Raw(class.to_string(), 1);
        for sep in [ast::cat(vec![Node::Assert(ast::A::WordB), ast::lit("-")]), Node::Assert(ast::A::NotWordB), ast::lit("-")] {
            scoped.push(ast::cat(vec![Node::FlagGroup("i".into(), Box::new(ast::plus(c()))), sep.clone(), ast::plus(c())]));
            scoped.push(ast::cat(vec![ast::plus(c()), sep.clone(), Node::FlagGroup("i".into(), Box::new(ast::plus(c())))]));
            scoped.push(ast::cat(vec![Node::FlagGroup("i".into(), Box::new(c())), Node::Assert(ast::A::NotWordB), c()]));
        }
    }
    // free-spacing mode switched on and off again in mid-pattern (the text after the switch is
    // significant again: `#`, blanks and groups in it count)
    for raw in [
        "(?x)(a)(?-x)#(b)", "(?x) (a) (?-x) (b)", "(?x)a(?-x) b", "(?x)a (?-x)#b", "(?x: a )#(b)", "(?x)(a)(?-x)#(b)\\b", "(a)(?x) # c\n(?-x)#(b)", "(?x)a # c\n(?-x)#", "(?x)(?-x) (a)\\b", "(?x)a(?-x:#(b)) (a)",
        "(?U)a*?b", "(?U:a+)a", "(?U)(a*)(a*)\\b", "(?U)a{1,2}b?\\b", "(?s).(?-s).", "(?m)^a$(?-m)^", "(?m:^a$)\\b.(?-m:$)",
    ] {
        scoped.push(Node::Raw(raw.to_string(), 2));
    }
    // common-syntax contexts around a word boundary (the only way common syntax reaches the VM):
    // the filler is delegated as one piece next to the boundary
    let quick = cx.quick();
    let common_ctx = move |c: &space::Context| if quick { ["\\b□", "□\\b", "\\B□\\B", "(\\b□)$", "(?:\\b(?:□|□'))(?m:$)"].contains(&c.name) } else { ["□", "x□", "□x", "\\b□", "□\\b", "\\B□\\B", "(\\b□)$", "^(\\b□)$", "(?:\\b(?:□|□'))(?m:$)", "(\\b□)□'"].contains(&c.name) };
    let space = Space::new().exh("common", g, k).list("flag-inside-group", scoped).ctxfill(3, 1, &common_ctx);
    let prefixes: Vec<&str> = vec!["", "(?i)", "(?m)", "(?s)", "(?x)", "(?U)"];
    let alphabet = vec!['a', 'A', 'b', 'é', '\n'];
    let max_len = 3;
    let texts = space::texts(&alphabet, max_len);
    let tallies = par::run_workers(16, |_w, claimer| {
        engine::quiet_panics();
        engine::set_sweep_horizons(40_000, 5_000);
        let mut t = Tally::new();
        space.for_each(claimer, &mut |node, tag| {
            let facts = ast::facts(node);
            let has_flag_atom = node.any(&|n| matches!(n, Node::Flag(_)));
            let namings: Vec<Naming> = if facts.n_groups >= 1 { vec![Naming::Numbered, Naming::Mask(1)] } else { vec![Naming::Numbered] };
            for naming in namings {
                let body = ast::to_pattern_named(node, naming);
                for prefix in &prefixes {
                    let pattern = format!("{}{}", prefix, body);
                    let rx = match regex::Regex::new(&pattern) {
                        Ok(r) => r,
                        Err(_) => {
                            t.count("regex_crate_rejects(skipped)", 1);
                            continue;
                        }
                    };
                    let mut viol = |t: &mut Tally, text: &str, pos: usize, api: &str, exp: String, got: String| {
                        t.violation(
                            weight(&pattern, text),
                            jobj! {"kind" => "c04", "pattern" => pattern.as_str(), "text" => text, "pos" => pos, "api" => api, "expected" => exp.as_str(), "observed" => got.as_str(),
                            "summary" => format!("/{}/ on {:?} {} (pos {}): regex crate {} fancy-regex {}", pattern, text, api, pos, exp, got)},
                        );
                    };
                    let re = match engine::compile(&pattern) {
                        Ok(r) => r,
                        Err(CompileFail::Err(kind)) => {
                            if kind.contains("TargetNotRepeatable") {
                                t.count("fancy_rejects_target_not_repeatable(documented)", 1);
                            } else {
                                viol(&mut t, "", 0, "Regex::new", "Ok".into(), kind);
                            }
                            continue;
                        }
                        Err(CompileFail::Panic(_)) => continue,
                    };
                    t.programs += 1;
                    let (is_vm, _) = engine::engine_class(&re);
                    if is_vm {
                        t.count("programs_vm", 1);
                    }
                    // attribution helpers
                    let f1_vm = facts.f1 && is_vm;
                    let mut flag_re: Option<Option<fancy_regex::Regex>> = None;
                    let mut mismatch = |t: &mut Tally, text: &str, pos: usize, api: &str, exp: String, got: String, recheck: &dyn Fn(&fancy_regex::Regex) -> String| {
                        if f1_vm {
                            t.known(kf::KF_F1, || jobj! {"pattern" => pattern.as_str(), "text" => text, "api" => api, "expected" => exp.as_str(), "observed" => got.as_str()});
                            return;
                        }
                        if has_flag_atom {
                            let fr = flag_re.get_or_insert_with(|| kf::compile_flag_scope_repaired(&pattern));
                            if let Some(fr) = fr {
                                if recheck(fr) == exp {
                                    t.known(kf::KF_FLAG_SCOPE, || jobj! {"pattern" => pattern.as_str(), "text" => text, "api" => api, "expected" => exp.as_str(), "observed" => got.as_str()});
                                    return;
                                }
                            }
                        }
                        t.violation(
                            weight(&pattern, text),
                            jobj! {"kind" => "c04", "pattern" => pattern.as_str(), "text" => text, "pos" => pos, "api" => api, "expected" => exp.as_str(), "observed" => got.as_str(),
                            "summary" => format!("/{}/ on {:?} {} (pos {}): regex crate {} fancy-regex {}", pattern, text, api, pos, exp, got)},
                        );
                    };
                    if rx.captures_len() != re.captures_len() {
                        mismatch(&mut t, "", 0, "captures_len", rx.captures_len().to_string(), re.captures_len().to_string(), &|r| r.captures_len().to_string());
                    }
                    let rn: Vec<Option<&str>> = rx.capture_names().collect();
                    let fnames: Vec<Option<String>> = catch_unwind(AssertUnwindSafe(|| re.capture_names().map(|n| n.map(|s| s.to_string())).collect())).unwrap_or_else(|_| vec![Some("<capture_names panics>".to_string())]);
                    let rn: Vec<Option<String>> = rn.iter().map(|n| n.map(|s| s.to_string())).collect();
                    if rn != fnames {
                        mismatch(&mut t, "", 0, "capture_names", format!("{:?}", rn), format!("{:?}", fnames), &|r| format!("{:?}", r.capture_names().collect::<Vec<_>>()));
                    }
                    for text in &texts {
                        let mut any = false;
                        for pos in space::offsets(text) {
                            t.evaluations += 1;
                            let e = rx_at(&rx, text, pos);
                            let g = engine::captures_at(&re, text, pos);
                            if matches!(e, Out::Match(_)) {
                                any = true;
                            }
                            if e != g && !matches!(g, Out::Panic(_)) {
                                mismatch(&mut t, text, pos, "captures_from_pos", e.short(), g.short(), &|r| engine::captures_at(r, text, pos).short());
                            }
                            let ef = rx.find_at(text, pos).map(|m| (m.start(), m.end()));
                            let gf = engine::find_at(&re, text, pos);
                            if gf.span() != ef && !matches!(gf, Out::Panic(_) | Out::Err(_)) {
                                mismatch(&mut t, text, pos, "find_from_pos", format!("{:?}", ef), format!("{:?}", gf.span()), &|r| format!("{:?}", engine::find_at(r, text, pos).span()));
                            }
                        }
                        if let Ok(b) = engine::is_match(&re, text) {
                            if b != rx.is_match(text) {
                                mismatch(&mut t, text, 0, "is_match", rx.is_match(text).to_string(), b.to_string(), &|r| format!("{}", engine::is_match(r, text).unwrap_or(false)));
                            }
                        }
                        // iterators
                        t.evaluations += 4;
                        let e_fi: Vec<(usize, usize)> = rx.find_iter(text).map(|m| (m.start(), m.end())).collect();
                        let fi_of = |r: &fancy_regex::Regex| format!("{:?}", engine::find_iter_log(r, text).items);
                        let e_fi_s = format!("{:?}", e_fi.iter().map(|x| Ok::<_, String>(*x)).collect::<Vec<_>>());
                        let g_fi = fi_of(&re);
                        if g_fi != e_fi_s {
                            mismatch(&mut t, text, 0, "find_iter", e_fi_s.clone(), g_fi, &fi_of);
                        }
                        let e_ci: Vec<Result<Vec<Option<(usize, usize)>>, String>> = rx.captures_iter(text).map(|c| Ok(rx_groups(&c))).collect();
                        let ci_of = |r: &fancy_regex::Regex| format!("{:?}", engine::captures_iter_log(r, text).items);
                        let e_ci_s = format!("{:?}", e_ci);
                        let g_ci = ci_of(&re);
                        if g_ci != e_ci_s {
                            mismatch(&mut t, text, 0, "captures_iter", e_ci_s, g_ci, &ci_of);
                        }
                        let base = text.as_ptr() as usize;
                        let off = |s: &str| (s.as_ptr() as usize - base, s.as_ptr() as usize - base + s.len());
                        let e_sp = format!("{:?}", rx.split(text).map(|s| Ok::<_, String>(off(s))).collect::<Vec<_>>());
                        let sp_of = |r: &fancy_regex::Regex| format!("{:?}", engine::split_log(r, text).items);
                        let g_sp = sp_of(&re);
                        if g_sp != e_sp {
                            mismatch(&mut t, text, 0, "split", e_sp, g_sp, &sp_of);
                        }
                        for n in 0..=3usize {
                            t.evaluations += 1;
                            let e_sn = format!("{:?}", rx.splitn(text, n).map(|s| Ok::<_, String>(off(s))).collect::<Vec<_>>());
                            let sn_of = |r: &fancy_regex::Regex| format!("{:?}", engine::splitn_log(r, text, n).items);
                            let g_sn = sn_of(&re);
                            if g_sn != e_sn {
                                mismatch(&mut t, text, 0, &format!("splitn({})", n), e_sn, g_sn, &sn_of);
                            }
                        }
                        let max_limit = if quick { 2usize } else { 3 };
                        for n in 0..=max_limit {
                            for tpl in TEMPLATES.iter().take(if quick { 4 } else { TEMPLATES.len() }) {
                                t.evaluations += 1;
                                let e = rx.replacen(text, n, *tpl);
                                let e_s = format!("{:?} borrowed={}", e, matches!(e, std::borrow::Cow::Borrowed(_)));
                                let rp_of = |r: &fancy_regex::Regex| match engine::replacen_str(r, text, n, tpl) {
                                    Ok((s, b)) => format!("{:?} borrowed={}", s, b),
                                    Err(e) => e,
                                };
                                let g_s = rp_of(&re);
                                if g_s != e_s {
                                    mismatch(&mut t, text, 0, &format!("replacen({}, {:?})", n, tpl), e_s, g_s, &rp_of);
                                }
                            }
                            // closure and NoExpand
                            t.evaluations += 2;
                            let e = rx.replacen(text, n, |c: &regex::Captures| format!("<{}>", &c[0])).into_owned();
                            let cl_of = |r: &fancy_regex::Regex| {
                                catch_unwind(AssertUnwindSafe(|| r.try_replacen(text, n, |c: &fancy_regex::Captures| format!("<{}>", &c[0])).map(|c| c.into_owned())))
                                    .map(|r| format!("{:?}", r.map_err(|e| engine::err_kind(&e))))
                                    .unwrap_or_else(|_| "Panic".into())
                            };
                            let e_s = format!("{:?}", Ok::<_, String>(e));
                            let g_s = cl_of(&re);
                            if g_s != e_s {
                                mismatch(&mut t, text, 0, &format!("replacen({}, closure)", n), e_s, g_s, &cl_of);
                            }
                            let e = rx.replacen(text, n, regex::NoExpand("$0")).into_owned();
                            let ne_of = |r: &fancy_regex::Regex| {
                                catch_unwind(AssertUnwindSafe(|| r.try_replacen(text, n, fancy_regex::NoExpand("$0")).map(|c| c.into_owned())))
                                    .map(|r| format!("{:?}", r.map_err(|e| engine::err_kind(&e))))
                                    .unwrap_or_else(|_| "Panic".into())
                            };
                            let e_s = format!("{:?}", Ok::<_, String>(e));
                            let g_s = ne_of(&re);
                            if g_s != e_s {
                                mismatch(&mut t, text, 0, &format!("replacen({}, NoExpand)", n), e_s, g_s, &ne_of);
                            }
                        }
                        if any {
                            t.nontrivial += 1;
                            t.sample(6, || jobj! {"pattern" => pattern.as_str(), "text" => text.as_str(), "find_iter" => g_fi_sample(&e_fi), "vm" => is_vm, "space" => tag});
                        }
                    }
                }
            }
        });
        t
    });
    let mut t = Tally::merge_all(tallies);
    let (dense, top) = if cx.quick() { (1100, 70_000) } else { (4200, 300_000) };
    let t4 = counts::sweep(counts::Which::C04, dense, top);
    t.count("large_count_sweep_programs", t4.programs);
    t.count("large_count_sweep_evaluations", t4.evaluations);
    t.merge(t4);
    let tc = casefold::sweep(casefold::Which::C04);
    t.count("casefold_sweep_programs", tc.programs);
    t.count("casefold_sweep_evaluations", tc.evaluations);
    t.merge(tc);
    finish(
        cx,
        t,
        Finish {
            rule: format!(
                "every common-syntax pattern of {} (classes, anchors, \\b \\B, groups numbered and named, greedy/lazy quantifiers, inline flag directives as atoms at any position) x flag prefixes {:?} x every text over {:?} up to length {}; oracle: regex::Regex built from the identical string; compared value by value: captures_len, capture_names, is_match, find_from_pos and captures_from_pos at every offset, find_iter, captures_iter, split, splitn(0..3), replacen(0..3; quick tier 0..2 and the first four templates) with templates {:?}, a closure and NoExpand (including Cow borrowed-ness); patterns the regex crate rejects are skipped; non-trivial = (pattern,text) with at least one match; plus a {}; plus a {}",
                space.describe(), prefixes, alphabet, max_len, TEMPLATES, counts::describe(counts::Which::C04, dense, top), casefold::describe(casefold::Which::C04)
            ),
            exhaustive: true,
            bounds: jobj! {"space" => space.describe(), "max_text_len" => max_len, "node_bound" => k},
            assumptions: vec!["oracle: the regex crate (1.x, the version in the repository's lock file)".into()],
            extra: vec![],
        },
    )
}

fn g_fi_sample(v: &[(usize, usize)]) -> String {
    format!("{:?}", v)
}
