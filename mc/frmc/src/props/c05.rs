//! C05: searching never panics and every reported offset is valid.
//! C09: the search entry points are mutually coherent.

use crate::common::*;
use crate::wide;
use crate::engine::{self, CompileFail, Out};
use crate::refsweep::weight;
use crate::spaces::Space;
use frmc_core::ast::{self, lit, Node, A};
use frmc_core::jobj;
use frmc_core::par;
use frmc_core::space;

pub fn unr_atoms() -> Vec<Node> {
    vec![
        lit("a"),
        lit("é"),
        Node::Dot,
        Node::Set(vec!['a'], true),
        Node::Assert(A::Start),
        Node::Assert(A::End),
        Node::Assert(A::WordB),
        Node::KeepOut,
        Node::ContG,
        Node::Backref(1),
        Node::CondExists(1),
    ]
}

/// UNR(k): the unrestricted grammar (all features, no scoping filter, conditionals, F1 included)
pub fn unr_space(k: usize) -> Space {
    let mut g = space::fancy_grammar(unr_atoms());
    g.cond_group = true;
    g.cond_expr = true;
    // conditionals inside loops need 4 nodes: a small dedicated sub-space keeps them in the quick tier
    let mut cl = space::cond_grammar(vec![lit("a"), Node::Dot, Node::Assert(A::End), Node::CondExists(1)]);
    cl.unary = vec![
        space::Unary::Group,
        space::Unary::Rep(0, None, frmc_core::ast::Mode::Greedy),
        space::Unary::Rep(1, None, frmc_core::ast::Mode::Greedy),
        space::Unary::Rep(0, None, frmc_core::ast::Mode::Lazy),
        space::Unary::Rep(2, None, frmc_core::ast::Mode::Greedy),
    ];
    Space::new().exh("unrestricted", g, k).exh("conditional-loops", cl, 4).ctxfill(2, 1, &|_| true).list("alternation-positions", alternation_positions())
}

/// A loop in hard context over an alternation of 2..4 alternatives of which exactly one can match
/// the empty string, in every position (the analysis folds the alternatives' sizes: first, middle and
/// last are different code paths), for every loop kind, followed by something that fails or holds.
fn alternation_positions() -> Vec<Node> {
    use frmc_core::ast::{alt, cat, grp, la, la_empty, nla, opt, rep, Mode};
    let letters = ["a", "b", "é"];
    let mut out = Vec::new();
    for n in 2..=4usize {
        for p in 0..n {
            for special in [Node::Empty, la_empty(), opt(lit("a")), grp(Node::Empty)] {
                let mut alts = Vec::new();
                let mut li = 0;
                for i in 0..n {
                    if i == p {
                        alts.push(special.clone());
                    } else {
                        alts.push(lit(letters[li % 3]));
                        li += 1;
                    }
                }
                for (lo, hi, mode) in [(0u32, None, Mode::Greedy), (1, None, Mode::Greedy), (0, None, Mode::Lazy), (2, None, Mode::Greedy)] {
                    for tail in [la(lit("b")), nla(lit("é"))] {
                        out.push(cat(vec![rep(alt(alts.clone()), lo, hi, mode), tail]));
                    }
                }
            }
        }
    }
    out
}

fn span_ok(text: &str, s: usize, e: usize) -> bool {
    s <= e && e <= text.len() && text.is_char_boundary(s) && text.is_char_boundary(e)
}

pub fn run_c05(cx: &Ctx) -> i32 {
    // started first, runs beside the sweep: one 65 536-slot frame costs seconds (the VM scans the
    // frame's undo log per save)
    let width_ks: Vec<usize> = if cx.quick() { vec![127, 128, 129, 255, 256, 257] } else { vec![127, 128, 129, 255, 256, 257, 32767, 32768, 32769] };
    let width_ks2 = width_ks.clone();
    let width_thread = std::thread::spawn(move || wide::width_edges(&width_ks2));
    let k = if cx.quick() { 3 } else { 4 };
    let space = unr_space(k);
    let alphabet = vec!['a', 'é', '€', '😀', '\n'];
    let max_len = if cx.quick() { 3 } else { 3 };
    let mut texts = space::texts(&alphabet, max_len);
    for c in ['\u{e01}', '\u{d7ff}', '\u{fffd}', '\u{10ffff}'] {
        texts.push(c.to_string());
        texts.push(format!("a{}", c));
        texts.push(format!("{}a", c));
    }
    // a few long regular texts: many loop iterations (long undo logs, deep branch stacks)
    for n in [19usize, 24, 40] {
        texts.push("a".repeat(n));
        texts.push(format!("{}é", "a".repeat(n)));
        texts.push(format!("😀{}", "a".repeat(n)));
    }
    let tallies = par::run_workers(32, |_w, claimer| {
        engine::quiet_panics();
        engine::set_sweep_horizons(40_000, 2_000);
        let mut t = Tally::new();
        space.for_each(claimer, &mut |node, tag| {
            let facts = ast::facts(node);
            if !facts.refs_valid {
                return;
            }
            let pattern = ast::to_pattern(node);
            let re = match engine::compile_with(&pattern, |b| {
                b.backtrack_limit(2000);
            }) {
                Ok(r) => r,
                Err(CompileFail::Err(_)) => {
                    t.count("compile_errors", 1);
                    return;
                }
                Err(CompileFail::Panic(_)) => {
                    t.count("compile_panic(left to C06)", 1);
                    return;
                }
            };
            t.programs += 1;
            let (is_vm, _) = engine::engine_class(&re);
            let mut viol = |t: &mut Tally, text: &str, api: &str, pos: usize, what: String| {
                t.violation(
                    weight(&pattern, text),
                    jobj! {"kind" => "c05", "pattern" => pattern.as_str(), "text" => text, "pos" => pos, "api" => api, "observed" => what.as_str(),
                    "summary" => format!("/{}/ on {:?}: {} (pos {}): {}", pattern, text, api, pos, what)},
                );
            };
            for text in &texts {
                let mut any_match = false;
                for pos in space::offsets(text) {
                    t.evaluations += 1;
                    match engine::validate_captures(&re, text, pos) {
                        Ok(Out::Match(_)) => any_match = true,
                        Ok(_) => {}
                        Err(e) => viol(&mut t, text, "captures_from_pos", pos, e),
                    }
                }
                // iterators: termination within the horizon, valid spans, no panic
                let fi = engine::find_iter_log(&re, text);
                let ci = engine::captures_iter_log(&re, text);
                t.evaluations += 2;
                let mut iter_ok = true;
                for (name, panic, overran) in [("find_iter", &fi.panic, fi.overran), ("captures_iter", &ci.panic, ci.overran)] {
                    if let Some(p) = panic {
                        viol(&mut t, text, name, 0, format!("panic: {}", p));
                        iter_ok = false;
                    }
                    if overran {
                        viol(&mut t, text, name, 0, format!("yields more than len+2 = {} items (does not terminate)", text.len() + 2));
                        iter_ok = false;
                    }
                }
                for it in &fi.items {
                    if let Ok((s, e)) = it {
                        if !span_ok(text, *s, *e) {
                            viol(&mut t, text, "find_iter", 0, format!("invalid span ({}, {})", s, e));
                        }
                    }
                }
                for it in &ci.items {
                    if let Ok(g) = it {
                        for (i, sp) in g.iter().enumerate() {
                            if let Some((s, e)) = sp {
                                if !span_ok(text, *s, *e) {
                                    viol(&mut t, text, "captures_iter", 0, format!("group {} invalid span ({}, {})", i, s, e));
                                }
                            }
                        }
                    }
                }
                if !iter_ok {
                    continue;
                }
                let sp = engine::split_log(&re, text);
                t.evaluations += 1;
                if let Some(p) = &sp.panic {
                    viol(&mut t, text, "split", 0, format!("panic: {}", p));
                }
                if sp.overran {
                    viol(&mut t, text, "split", 0, "does not terminate".into());
                }
                for n in 0..=3 {
                    let l = engine::splitn_log(&re, text, n);
                    t.evaluations += 1;
                    if let Some(p) = &l.panic {
                        viol(&mut t, text, &format!("splitn({})", n), 0, format!("panic: {}", p));
                    }
                    if l.items.len() > n {
                        viol(&mut t, text, &format!("splitn({})", n), 0, format!("yields {} items", l.items.len()));
                    }
                }
                for n in 0..=2 {
                    for rep in ["x", "$0", "[$1]"] {
                        t.evaluations += 1;
                        if let Err(e) = engine::replacen_str(&re, text, n, rep) {
                            if e.starts_with("Panic") {
                                viol(&mut t, text, &format!("try_replacen({}, {:?})", n, rep), 0, e);
                            }
                        }
                    }
                }
                if is_vm && any_match {
                    t.nontrivial += 1;
                    t.sample(6, || jobj! {"pattern" => pattern.as_str(), "text" => text.as_str(), "find_iter" => format!("{:?}", fi.items), "space" => tag});
                }
            }
        });
        t
    });
    let mut t = Tally::merge_all(tallies);
    let wsp = wide::wide_space(cx.quick());
    let t4 = wide::sweep(&wsp, wide::Mode::Spans, 3);
    t.count("wide_sweep_programs", t4.programs);
    t.count("wide_sweep_evaluations", t4.evaluations);
    t.merge(t4);
    // frames of 2k slots at the edges of 8- and 16-bit widths (an undo count or slot number stored
    // in a narrower integer wraps)
    let tw = width_thread.join().unwrap_or_else(|_| {
        let mut t = Tally::new();
        t.violation(0, frmc_core::jobj! {"kind" => "width-edges", "pattern" => "", "text" => "", "pos" => 0usize, "observed" => "panic", "summary" => "the width-edge pass panicked"});
        t
    });
    t.count("width_edge_runs", tw.evaluations);
    t.merge(tw);
    // characters whose case-folded partners have another UTF-8 length (an offset computed from the
    // pattern's literal instead of the text lands inside a character)
    let tcf = crate::casefold::iter_sweep();
    t.count("casefold_iteration_sweep_runs", tcf.evaluations);
    t.merge(tcf);
    finish(
        cx,
        t,
        Finish {
            rule: format!(
                "{}; frames of 2k capture slots between two backtrack points for k in [127, 128, 129, 255, 256, 257] (thorough: also 32767, 32768, 32769 - one such frame costs about a minute; expected result known by construction); every pattern of {} (no scoping filter: self-referential backreferences, conditions on open groups, empty loops, \\K and \\G anywhere) x every text over {:?} up to length {}; entry points: captures_from_pos at every char-boundary offset (all spans validated, Match::as_str / range / Index exercised), find_iter, captures_iter, split, splitn(0..3), try_replacen(0..2; constant, $0, [$1]); oracle: returns normally, spans satisfy start<=end<=len on char boundaries, iterators end within len+2 items; backtrack_limit 2000 and hook horizons so that a looping run is cut and reported; non-trivial = (pattern,text) where the pattern is VM-compiled and some offset has a match; plus a {} (here: every span of the widened pattern valid)",
                crate::casefold::describe_iter(), space.describe(), alphabet, max_len, wide::describe(&wsp, 3)
            ),
            exhaustive: true,
            bounds: jobj! {"space" => space.describe(), "max_text_len" => max_len, "node_bound" => k},
            assumptions: vec!["catch_unwind sees every panic (panic=unwind build); allocation failure would abort the process and be reported as a machinery error, not a verdict".into()],
            extra: vec![],
        },
    )
}

fn c09_pass(space: &crate::spaces::Space, texts: &[String], few_offsets: bool) -> Tally {
    let tallies = par::run_workers(32, |_w, claimer| {
        engine::quiet_panics();
        engine::set_sweep_horizons(40_000, 2_000);
        let mut t = Tally::new();
        space.for_each(claimer, &mut |node, tag| {
            let facts = ast::facts(node);
            if !facts.refs_valid {
                return;
            }
            // numbered spelling, and relative backreferences \k<-n> where the pattern has any
            let mut spellings = vec![ast::to_pattern(node)];
            if facts.has_backref && !facts.has_cond {
                spellings.push(ast::to_pattern_named(node, ast::Naming::Relative));
                spellings.push(ast::to_pattern_named(node, ast::Naming::Angle));
            }
            for pattern in spellings {
            let re = match engine::compile_with(&pattern, |b| {
                b.backtrack_limit(5000);
            }) {
                Ok(r) => r,
                Err(_) => {
                    t.count("compile_errors", 1);
                    continue;
                }
            };
            t.programs += 1;
            let (is_vm, _) = engine::engine_class(&re);
            let mut viol = |t: &mut Tally, text: &str, pos: usize, what: String| {
                t.violation(
                    weight(&pattern, text),
                    jobj! {"kind" => "c09", "pattern" => pattern.as_str(), "text" => text, "pos" => pos, "observed" => what.as_str(),
                    "summary" => format!("/{}/ on {:?} (pos {}): {}", pattern, text, pos, what)},
                );
            };
            for text in texts {
                let mut any = false;
                for pos in space::offsets(text).into_iter().filter(|&p| !few_offsets || p == 0 || p == 1 || p == text.len() / 2) {
                    t.evaluations += 1;
                    let f = engine::find_at(&re, text, pos);
                    let c = engine::captures_at(&re, text, pos);
                    let coherent = match (&f, &c) {
                        (Out::Match(a), Out::Match(b)) => a[0] == b[0],
                        (Out::NoMatch, Out::NoMatch) => true,
                        (Out::Err(_), Out::Err(_)) => true,
                        (Out::Panic(_), _) | (_, Out::Panic(_)) => true, // C05
                        _ => false,
                    };
                    if !coherent {
                        viol(&mut t, text, pos, format!("find_from_pos = {} but captures_from_pos = {}", f.short(), c.short()));
                    }
                    if matches!(f, Out::Match(_)) {
                        any = true;
                    }
                    if pos == 0 {
                        let im = engine::is_match(&re, text);
                        let ok = match (&im, &f) {
                            (Ok(true), Out::Match(_)) | (Ok(false), Out::NoMatch) => true,
                            (Err(_), Out::Err(_)) => true,
                            (Err(e), _) if e.starts_with("Panic") => true,
                            (_, Out::Panic(_)) => true,
                            _ => false,
                        };
                        if !ok {
                            viol(&mut t, text, 0, format!("is_match = {:?} but find = {}", im, f.short()));
                        }
                    }
                }
                let fi = engine::find_iter_log(&re, text);
                let ci = engine::captures_iter_log(&re, text);
                t.evaluations += 1;
                if fi.panic.is_none() && ci.panic.is_none() && !fi.overran && !ci.overran {
                    let a: Vec<Result<(usize, usize), String>> = fi.items.clone();
                    let b: Vec<Result<(usize, usize), String>> = ci.items.iter().map(|r| r.clone().map(|g| g[0].unwrap_or((usize::MAX, usize::MAX)))).collect();
                    // an Err from one implies an Err from the sibling at the same place
                    let same = a.len() == b.len() && a.iter().zip(b.iter()).all(|(x, y)| match (x, y) {
                        (Ok(p), Ok(q)) => p == q,
                        (Err(_), Err(_)) => true,
                        _ => false,
                    });
                    if !same {
                        viol(&mut t, text, 0, format!("find_iter yields {:?} but captures_iter yields {:?}", a, b));
                    }
                    // every item of captures_iter is what a fresh search from the item's own start
                    // reports, group by group (patterns without \G / \K, whose results depend on the
                    // search position itself): state carried from one step of the iterator to the next
                    // must not leak into the groups
                    if same && !facts.has_contg && !facts.has_keepout {
                        for item in ci.items.iter().flatten() {
                            if let Some((s0, _)) = item[0] {
                                if !text.is_char_boundary(s0) || s0 > text.len() {
                                    continue;
                                }
                                t.evaluations += 1;
                                if let Out::Match(fresh) = engine::captures_at(&re, text, s0) {
                                    if &fresh != item {
                                        viol(&mut t, text, s0, format!("captures_iter yields {:?} but captures_from_pos({}) = {:?}", item, s0, fresh));
                                        break;
                                    }
                                }
                            }
                        }
                    }
                }
                if is_vm && any {
                    t.nontrivial += 1;
                    t.sample(6, || jobj! {"pattern" => pattern.as_str(), "text" => text.as_str(), "find_iter" => format!("{:?}", fi.items), "space" => tag});
                }
            }
            }
        });
        t
    });
    Tally::merge_all(tallies)
}

pub fn run_c09(cx: &Ctx) -> i32 {
    let k = if cx.quick() { 3 } else { 5 };
    let space = unr_space(k);
    let alphabet = vec!['a', 'b', 'é', '\n'];
    let max_len = 3;
    let texts = space::texts(&alphabet, max_len);
    let mut t = c09_pass(&space, &texts, false);
    // tall pass: every context x one-node fillers over long regular texts (32 and more bytes:
    // prefilters and skip-ahead shortcuts that only one of two sibling entry points takes)
    let tall_space = crate::spaces::Space::new().ctxfill(1, 1, &|_| true);
    let tall_texts = crate::refsweep::tall_texts(if cx.quick() { 40 } else { 72 });
    let t2 = c09_pass(&tall_space, &tall_texts, true);
    t.count("tall_sweep_programs", t2.programs);
    t.count("tall_sweep_evaluations", t2.evaluations);
    t.merge(t2);
    finish(
        cx,
        t,
        Finish {
            rule: format!(
                "every pattern of {} (patterns with backreferences also spelled with relative \\k<-n> and named \\k<n> references) x every text over {:?} up to length {} x every offset: is_match <=> find is Some <=> captures is Some; captures_from_pos(t,p).get(0) == find_from_pos(t,p); captures_iter yields exactly the spans find_iter yields, in order (an Err from one entry point must be an Err from its sibling); no reference model involved; non-trivial = (pattern,text) VM-compiled with at least one match; every captures_iter item equals, group by group, captures_from_pos from the item's own start (patterns without \\G / \\K); plus a tall pass: every context x one-node fillers ({}) over long regular texts (a^n, a^n b, b a^n, (ab)^n, a^n e-acute; n up to 40 quick / 72 thorough) from the offsets 0, 1 and the middle, same oracles",
                space.describe(), alphabet, max_len, tall_space.describe()
            ),
            exhaustive: true,
            bounds: jobj! {"space" => space.describe(), "max_text_len" => max_len, "node_bound" => k},
            assumptions: vec![],
            extra: vec![],
        },
    )
}
