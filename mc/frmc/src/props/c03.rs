//! C03: results do not depend on how the pattern is split between VM and automata
//! (metamorphic: inject the empty positive look-ahead `(?=)` at every site).

use crate::common::*;
use crate::casefold;
use crate::counts;
use crate::engine::{self, Out};
use crate::kf;
use crate::refsweep::weight;
use crate::spaces::{self, Space};
use frmc_core::ast::{self, la_empty};
use frmc_core::jobj;
use frmc_core::par;
use frmc_core::space;

pub fn run_c03(cx: &Ctx) -> i32 {
    let (space, single_site_len) = if cx.quick() {
        (Space::new().exh("core", space::fancy_grammar(space::core_atoms()), 4).ctxfill(2, 1, &|_| true), 2)
    } else {
        (Space::new().exh("core", space::fancy_grammar(space::core_atoms()), 4).ctxfill(3, 1, &|_| true), 3)
    };
    let alphabet = spaces::sigma4();
    let max_len = 3;
    let texts = space::texts(&alphabet, max_len);
    let inj = la_empty();
    let tallies = par::run_workers(32, |_w, claimer| {
        engine::quiet_panics();
        engine::set_sweep_horizons(40_000, 5_000);
        let mut t = Tally::new();
        space.for_each(claimer, &mut |node, tag| {
            let facts = ast::facts(node);
            if !facts.refs_valid {
                return;
            }
            let pattern = ast::to_pattern(node);
            let base = match engine::compile(&pattern) {
                Ok(r) => r,
                Err(_) => {
                    t.count("base_compile_errors", 1);
                    return;
                }
            };
            let (base_vm, base_delegates) = engine::engine_class(&base);
            // variants: every single site (before/after) and all sites at once
            let base_owns = engine::vm_owns_loops(&base);
            let mut variants: Vec<(String, fancy_regex::Regex, bool, bool)> = Vec::new();
            let size = node.size();
            let mut vnodes = Vec::new();
            for site in 0..size {
                for after in [false, true] {
                    if let Some(v) = ast::inject_at(node, site, after, &inj) {
                        vnodes.push((v, false));
                    }
                }
            }
            vnodes.push((ast::inject_all(node, &inj), true));
            let mut seen = std::collections::BTreeSet::new();
            for (v, all) in vnodes {
                let vp = ast::to_pattern(&v);
                if !seen.insert(vp.clone()) {
                    continue;
                }
                match engine::compile(&vp) {
                    Ok(r) => {
                        let (vm, del) = engine::engine_class(&r);
                        if vm != base_vm {
                            t.count("variants_engine_class_changed", 1);
                        } else if del != base_delegates {
                            t.count("variants_delegate_count_changed", 1);
                        } else {
                            t.count("variants_same_shape_counts", 1);
                        }
                        let owns = engine::vm_owns_loops(&r);
                        variants.push((vp, r, all, owns));
                    }
                    Err(_) => t.count("variants_not_compiling(skipped)", 1),
                }
            }
            t.programs += 1 + variants.len() as u64;
            for text in &texts {
                let tl = text.chars().count();
                for pos in space::offsets(text) {
                    let b = engine::captures_at(&base, text, pos);
                    if matches!(b, Out::Panic(_)) {
                        continue;
                    }
                    for (vp, vre, all, v_owns) in &variants {
                        if !*all && tl > single_site_len {
                            continue;
                        }
                        t.evaluations += 1;
                        let v = engine::captures_at(vre, text, pos);
                        if matches!(v, Out::Panic(_)) || v == b {
                            if base_vm && matches!(b, Out::Match(_)) {
                                t.nontrivial += 1;
                            } else if !base_vm && matches!(b, Out::Match(_)) {
                                // whole-pattern hand-off versus piecewise VM compilation
                                t.nontrivial += 1;
                                t.sample(6, || jobj! {"base" => pattern.as_str(), "variant" => vp.as_str(), "text" => text.as_str(), "pos" => pos, "result" => b.short(), "space" => tag});
                            }
                            continue;
                        }
                        // an Err on one side only (limits) is left to C07
                        if matches!(b, Out::Err(_)) || matches!(v, Out::Err(_)) {
                            t.count("skipped_runtime_error_on_one_side", 1);
                            continue;
                        }
                        // class F1 explains a divergence only if at least one side leaves an unbounded
                        // repeat to the automata engine; two VM-interpreted sides follow the same rule
                        if facts.f1 && !(base_owns && *v_owns) {
                            t.known(kf::KF_F1, || jobj! {"base" => pattern.as_str(), "variant" => vp.as_str(), "text" => text.as_str(), "pos" => pos, "base_result" => b.short(), "variant_result" => v.short()});
                            continue;
                        }
                        t.violation(
                            weight(vp, text),
                            jobj! {"kind" => "c03", "pattern" => pattern.as_str(), "variant" => vp.as_str(), "text" => text.as_str(), "pos" => pos,
                            "expected" => b.short(), "observed" => v.short(),
                            "summary" => format!("/{}/ gives {} but /{}/ gives {} on {:?} from {}", pattern, b.short(), vp, v.short(), text, pos)},
                        );
                    }
                }
            }
        });
        t
    });
    let mut t = Tally::merge_all(tallies);
    let (dense, top) = if cx.quick() { (300, 5_000) } else { (2100, 5_000) };
    let t4 = counts::sweep(counts::Which::C03, dense, top);
    t.count("large_count_sweep_programs", t4.programs);
    t.count("large_count_sweep_evaluations", t4.evaluations);
    t.merge(t4);
    let tc = casefold::sweep(casefold::Which::C03);
    t.count("casefold_sweep_programs", tc.programs);
    t.count("casefold_sweep_evaluations", tc.evaluations);
    t.merge(tc);
    finish(
        cx,
        t,
        Finish {
            rule: format!(
                "every base pattern of {} x every single injection site of (?=) (before and after every AST node, at every depth; texts up to length {}) plus the all-sites variant (texts up to length {}) x every text over {:?} x every offset; base and variant are both run on the real crate and every group is compared (metamorphic, no reference model); variants that no longer compile are skipped; non-trivial = compared cases with a match; counters report how many injections changed the engine class (whole-pattern hand-off -> VM) or the number of Delegate instructions; plus a {}; plus a {}",
                space.describe(), single_site_len, max_len, alphabet, counts::describe(counts::Which::C03, dense, top), casefold::describe(casefold::Which::C03)
            ),
            exhaustive: true,
            bounds: jobj! {"space" => space.describe(), "max_text_len" => max_len},
            assumptions: vec!["(?=) never changes what matches (it matches the empty string at every position)".into()],
            extra: vec![],
        },
    )
}
