//! C20: backtracking restores, and atomic commit preserves, exactly the right state.

use crate::common::*;
use crate::refsweep::{self, RefCfg};
use crate::spaces::{self, Space};
use crate::statemodel::{Op, VmModel};
use crate::wide;
use frmc_core::jobj;
use frmc_core::json::J;
use frmc_core::space;
use stateright::{Checker, Model};

struct RunOut {
    unique: usize,
    generated: usize,
    max_depth: usize,
    discovery: Option<(Vec<Op>, String)>,
    capped: bool,
}

/// One configuration of the state model.
#[derive(Clone, Debug)]
struct Cfg {
    slot_ids: Vec<usize>,
    values: usize,
    depth: usize,
    single: usize,
    burst: bool,
}

fn dense(slots: usize, values: usize, depth: usize) -> Cfg {
    Cfg { slot_ids: (0..slots).collect(), values, depth, single: slots, burst: false }
}
fn sparse(ids: &[usize], values: usize, depth: usize) -> Cfg {
    Cfg { slot_ids: ids.to_vec(), values, depth, single: ids.len(), burst: false }
}
/// `slots` dense slots, individual saves for the first `single` only, plus Burst operations
fn long_frame(slots: usize, single: usize, values: usize, depth: usize) -> Cfg {
    Cfg { slot_ids: (0..slots).collect(), values, depth, single, burst: true }
}

fn explore(c: &Cfg, threads: usize, state_cap: usize) -> RunOut {
    let depth = c.depth;
    let model = VmModel { slots: c.slot_ids.len(), values: c.values, max_ops: depth as u32, slot_ids: c.slot_ids.clone(), single: c.single, burst: c.burst };
    // stateright numbers the initial state 1 and skips (without checking) every state whose depth
    // is >= the target: a state reached by n operations is checked iff n + 1 < target. The model
    // itself stops expanding after `depth` operations (the depth is part of the state), so the
    // target only has to be out of the way.
    let checker = model.checker().threads(threads).target_max_depth(depth + 3).target_state_count(state_cap).spawn_bfs().join();
    let unique = checker.unique_state_count();
    let generated = checker.state_count();
    let max_depth = checker.max_depth();
    let discovery = checker.discoveries().into_iter().next().map(|(_, path)| {
        let last = path.last_state().bad.clone().unwrap_or_default();
        (path.into_actions(), last)
    });
    RunOut { unique, generated, max_depth, discovery, capped: unique >= state_cap }
}

pub fn run_c20(cx: &Ctx) -> i32 {
    // (slots, values, depth)
    // dense: (slots, values, operations); sparse: real slot indices an implementation could confuse
    // (bit masks, windows); long-frame: one frame's undo log grows past small scan windows / inline buffers
    let configs: Vec<Cfg> = if cx.quick() {
        vec![dense(2, 2, 10), dense(3, 3, 7), dense(5, 1, 8), sparse(&[0, 64], 2, 9), sparse(&[1, 33, 65], 1, 9), sparse(&[0, 8, 16, 128], 1, 8), long_frame(10, 2, 2, 8), long_frame(20, 1, 2, 8)]
    } else {
        vec![dense(2, 2, 11), dense(3, 3, 8), dense(6, 1, 9), sparse(&[0, 64], 2, 10), sparse(&[1, 33, 65], 1, 10), sparse(&[0, 8, 16, 128], 1, 9), sparse(&[0, 32, 64, 128, 256], 1, 8), long_frame(10, 2, 2, 9), long_frame(20, 1, 2, 9), long_frame(40, 2, 1, 9)]
    };
    let cap = 60_000_000usize;
    let mut t = Tally::new();
    let mut runs = Vec::new();
    let mut states = 0u64;
    let mut transitions = 0u64;
    for c in &configs {
        let (s, v, d) = (c.slot_ids.len(), c.values, c.depth);
        let a = explore(c, frmc_core::par::n_threads(), cap);
        // second run, single-threaded for the small configuration / fewer threads otherwise:
        // parallel BFS with a depth target can expand a state first at a deeper level
        // (thorough tier only; with the depth in the key both searches visit the same set)
        let b = if cx.quick() { RunOut { unique: a.unique, generated: a.generated, max_depth: a.max_depth, discovery: None, capped: a.capped } } else { explore(c, if a.unique < 3_000_000 { 1 } else { 4 }, cap) };
        states += a.unique as u64;
        transitions += a.generated as u64;
        t.evaluations += a.generated as u64;
        t.programs += 1;
        t.nontrivial += a.unique as u64;
        runs.push(jobj! {"slots" => s, "slot_ids" => c.slot_ids.clone(), "individually_saved_slots" => c.single, "burst_operations" => c.burst, "values" => v, "operations_bound" => d, "unique_states" => a.unique, "generated" => a.generated, "max_depth" => a.max_depth,
            "second_run_unique_states" => b.unique, "counts_agree" => a.unique == b.unique, "capped" => a.capped});
        if a.capped {
            t.count("runs_capped_by_state_count", 1);
        }
        for r in [&a, &b] {
            if let Some((ops, why)) = &r.discovery {
                let ops_s: Vec<String> = ops.iter().map(|o| format!("{:?}", o)).collect();
                t.violation(
                    ops.len(),
                    jobj! {"kind" => "c20", "slots" => s, "slot_ids" => c.slot_ids.clone(), "single" => c.single, "burst" => c.burst, "values" => v, "ops" => ops_s.clone(), "observed" => why.as_str(),
                    "summary" => format!("slots {:?}: {} => {}", c.slot_ids, ops_s.join(", "), why)},
                );
                break;
            }
        }
        if a.unique != b.unique && a.discovery.is_none() && b.discovery.is_none() {
            t.count("second_run_count_differs", 1);
        }
    }
    // sample operation sequences (first few of the alphabet walk)
    let m = VmModel::dense(2, 2, 64);
    let mut st = m.init();
    let mut walk = Vec::new();
    for op in [Op::Save(0, 1), Op::Push(1, 11), Op::Save(0, 2), Op::BeginAtomic, Op::Push(2, 12), Op::Save(1, 1), Op::EndAtomic, Op::Pop] {
        st = m.apply(&st, &op);
        walk.push(J::from(format!("{:?} -> saves {:?}", op, st.vm.snapshot().0)));
    }
    t.samples.push(J::Arr(walk));
    // program-level part: the whole-copy shadow monitor (hook H5) inside real vm::run executions
    let sp = if cx.quick() {
        Space::new().exh("core", space::fancy_grammar(space::core_atoms()), 3).ctxfill(2, 1, &|_| true)
    } else {
        Space::new().exh("core", space::fancy_grammar(space::core_atoms()), 4).ctxfill(3, 1, &|_| true)
    };
    let cfg = RefCfg { check_span: false, check_groups: false, check_is_match: false, need_scoped: false, filter: None, shadow: true, alphabet: spaces::sigma4(), max_len: 3 , text_list: None, offset0_only: false, letter_names: false, casei: false};
    let mut t2 = refsweep::run(cx, &sp, &cfg);
    // ... and on long regular texts (long undo logs at the cut)
    let tall_space = Space::new().ctxfill(if cx.quick() { 1 } else { 2 }, 1, &|_| true);
    let tall_cfg = RefCfg { text_list: Some(refsweep::tall_texts(if cx.quick() { 32 } else { 64 })), offset0_only: true, letter_names: false, casei: false, ..RefCfg { check_span: false, check_groups: false, check_is_match: false, need_scoped: false, filter: None, shadow: true, alphabet: vec![], max_len: 0, text_list: None, offset0_only: false, letter_names: false, casei: false } };
    let t3 = refsweep::run(cx, &tall_space, &tall_cfg);
    t2.count("tall_sweep_monitored_runs", t3.evaluations);
    t2.merge(t3);
    // ... and with many capture groups in one frame (slot numbers up to 70, undo logs of 60+ entries)
    let wsp = wide::wide_space(cx.quick());
    let t4 = wide::sweep(&wsp, wide::Mode::Shadow, 3);
    t2.count("wide_sweep_monitored_runs", t4.evaluations);
    t2.merge(t4);
    // ... and the observable side of a commit: a cut that is not executed at all (an atomic
    // construct lowered without its BeginAtomic/EndAtomic pair) leaves the state consistent - no
    // monitor can object - but the alternatives created inside survive; every context with an atomic
    // group, a possessive quantifier or a look-around is compared with the reference semantics
    // (span and groups) on texts long enough for a give-back
    let commit_space = Space::new().ctxfill(2, 1, &|c| c.name.contains("(?>") || c.name.contains("+□") || c.name.contains("*+") || c.name.contains("?+") || c.name.contains("(?=") || c.name.contains("(?!") || c.name.contains("(?<"));
    let commit_cfg = RefCfg { check_span: true, check_groups: true, check_is_match: false, need_scoped: true, filter: None, shadow: false, alphabet: vec!['a', 'b'], max_len: if cx.quick() { 5 } else { 6 }, text_list: None, offset0_only: true, letter_names: false, casei: false };
    let t5 = refsweep::run(cx, &commit_space, &commit_cfg);
    t2.count("commit_observable_sweep_runs", t5.evaluations);
    t2.merge(t5);
    let monitored = t2.evaluations;
    let shadow_checks = *t2.counters.get("shadow_checks").unwrap_or(&0);
    t.count("monitored_runs", monitored);
    t.merge(t2);
    finish(
        cx,
        t,
        Finish {
            rule: format!(
                "E2: breadth-first search (stateright) over all operation sequences {{Save(slot,value), Push, Pop, BeginAtomic, EndAtomic}} applied to the crate's real vm::State (hook H3) in lock-step with a whole-state-copy reference; configurations (slots, values, number of operations) {:?}; dedup key = real snapshot (slots, auxiliary stack, branches (pc,ix,nsave), undo log, nsave) + reference state, history-free; invariant in every state: every slot, the number of alternatives, the (pc,ix) returned by Pop and the count popped by EndAtomic agree; in the thorough tier each configuration is searched twice with different thread counts and the unique-state counts compared (the depth is part of the key, so a parallel search cannot lose a state). Program level: the same whole-copy discipline as a shadow monitor (hook H5) inside real vm::run executions of {} x texts up to length 3 x every offset: after every pop the live state must equal the copy taken at push time, every cut must leave the slots unchanged and exactly `count` alternatives; the same monitor during the tall sweep (long regular texts) and during a {}; the observable side of a commit (a cut that is never executed leaves a consistent state): every context with an atomic group, possessive quantifier or look-around x fillers of <= 2 nodes x every text over [a, b] up to length 5 (6 thorough) compared with the reference semantics (span and groups). distinct_nontrivial = unique states",
                configs,
                sp.describe(),
                wide::describe(&wsp, 3)
            ),
            exhaustive: true,
            bounds: jobj! {"configurations" => J::Arr(runs.clone())},
            assumptions: vec!["the VmState wrapper (hook H3) forwards to the private State methods without logic of its own".into()],
            extra: vec![
                ("states".into(), states.into()),
                ("transitions".into(), transitions.into()),
                ("traces_validated_against_impl".into(), transitions.into()),
                ("monitored_runs".into(), monitored.into()),
                ("shadow_checks".into(), shadow_checks.into()),
                ("runs".into(), J::Arr(runs)),
            ],
        },
    )
}

/// Replay one recorded operation sequence against the real state (no explorer).
pub fn replay(case: &J) -> i32 {
    let slots = case.int_of("slots") as usize;
    let values = case.int_of("values") as usize;
    let mut m = VmModel::dense(slots, values, 1 << 20);
    if let Some(ids) = case.get("slot_ids").and_then(|a| a.as_arr()) {
        m.slot_ids = ids.iter().filter_map(|x| x.as_i64()).map(|x| x as usize).collect();
        m.slots = m.slot_ids.len();
    }
    let mut st = m.init();
    let ops = case.get("ops").and_then(|o| o.as_arr()).cloned().unwrap_or_default();
    for o in ops {
        let s = o.as_str().unwrap_or("");
        let nums: Vec<usize> = s.split(|c: char| !c.is_ascii_digit()).filter(|x| !x.is_empty()).filter_map(|x| x.parse().ok()).collect();
        let op = if s.starts_with("Save") {
            Op::Save(nums[0], nums[1])
        } else if s.starts_with("Push") {
            Op::Push(nums[0], nums[1])
        } else if s.starts_with("Pop") {
            Op::Pop
        } else if s.starts_with("BeginAtomic") {
            Op::BeginAtomic
        } else if s.starts_with("Burst") {
            Op::Burst(nums[0])
        } else {
            Op::EndAtomic
        };
        st = m.apply(&st, &op);
        println!("{:?} -> saves {:?} reference {:?}", op, st.vm.snapshot().0, st.refm.slots);
        if let Some(b) = &st.bad {
            println!("REPRODUCED: {}", b);
            return 1;
        }
    }
    println!("not reproduced");
    0
}
