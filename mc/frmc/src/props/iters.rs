//! C08 (find_iter), C10 (split / splitn), C11 (replacen): iterator state machines against the
//! iteration model of frmc-core/src/itermodel.rs.

use crate::common::*;
use crate::engine::{self, Out};
use crate::refsweep::weight;
use crate::spaces::{self, Space};
use frmc_core::ast::{self, Naming};
use frmc_core::expandref::{self, CapModel};
use frmc_core::ir;
use frmc_core::itermodel::{self, M};
use frmc_core::jobj;
use frmc_core::par;
use frmc_core::refsem::{self, Outcome};
use frmc_core::space;
use std::collections::{BTreeSet, HashMap};
use std::panic::{catch_unwind, AssertUnwindSafe};

fn iter_space(cx: &Ctx) -> Space {
    if cx.quick() {
        Space::new().exh("core", space::fancy_grammar(space::core_atoms()), 3).ctxfill(2, 1, &|_| true)
    } else {
        Space::new().exh("core", space::fancy_grammar(space::core_atoms()), 4).ctxfill(3, 1, &|_| true)
    }
}

/// (last_end, last_match) from the derived Debug output of `Matches`
fn parse_state(dbg: &str) -> Option<(usize, Option<usize>)> {
    let le = dbg.rfind("last_end: ")?;
    let rest = &dbg[le + 10..];
    let end = rest.find(|c: char| !c.is_ascii_digit())?;
    let last_end: usize = rest[..end].parse().ok()?;
    let lm = dbg.rfind("last_match: ")?;
    let rest = &dbg[lm + 12..];
    let last_match = if rest.starts_with("None") {
        None
    } else {
        let r = rest.strip_prefix("Some(")?;
        // pretty or compact Debug
        let r = r.trim_start();
        let end = r.find(|c: char| !c.is_ascii_digit())?;
        Some(r[..end].parse().ok()?)
    };
    Some((last_end, last_match))
}

pub fn run_c08(cx: &Ctx) -> i32 {
    let space = iter_space(cx);
    let alphabet = spaces::sigma4();
    let max_len = if cx.quick() { 3 } else { 4 };
    let mut texts = space::texts(&alphabet, max_len);
    // 3- and 4-byte characters (how far an iterator steps after an empty match)
    texts.extend(space::texts(&['a', '€', '😀'], 2).into_iter().filter(|t| !t.bytes().all(|b| b == b'a')));
    // one character for every UTF-8 lead-byte class not covered above (E0, ED, EF, F4)
    for c in ['\u{e01}', '\u{d7ff}', '\u{fffd}', '\u{10ffff}'] {
        texts.push(c.to_string());
        texts.push(format!("a{}", c));
        texts.push(format!("{}a", c));
    }
    let tallies = par::run_workers(32, |_w, claimer| {
        engine::quiet_panics();
        engine::set_sweep_horizons(40_000, 5_000);
        let mut t = Tally::new();
        let mut states: BTreeSet<(usize, Option<usize>)> = BTreeSet::new();
        space.for_each(claimer, &mut |node, tag| {
            let facts = ast::facts(node);
            if !facts.refs_valid {
                return;
            }
            let pattern = ast::to_pattern(node);
            let re = match engine::compile(&pattern) {
                Ok(r) => r,
                Err(_) => {
                    t.count("compile_errors", 1);
                    return;
                }
            };
            t.programs += 1;
            let (is_vm, _) = engine::engine_class(&re);
            let prog = if facts.scoped { ir::from_ast(node).ok() } else { None };
            let vm_owns_loops = engine::vm_owns_loops(&re);
            let limited: Vec<(usize, fancy_regex::Regex)> = if is_vm {
                [0usize, 1, 2].iter().filter_map(|&l| engine::compile_with(&pattern, |b| { b.backtrack_limit(l); }).ok().map(|r| (l, r))).collect()
            } else {
                Vec::new()
            };
            let mut viol = |t: &mut Tally, text: &str, what: String| {
                t.violation(
                    weight(&pattern, text),
                    jobj! {"kind" => "c08", "pattern" => pattern.as_str(), "text" => text, "pos" => 0, "observed" => what.as_str(),
                    "summary" => format!("/{}/ on {:?}: {}", pattern, text, what)},
                );
            };
            for text in &texts {
                t.evaluations += 1;
                let horizon = text.len() + 2;
                // drive the real iterator, reading its state between calls
                let mut it = re.find_iter(text);
                let mut items: Vec<Result<(usize, usize), String>> = Vec::new();
                let mut trace_states = Vec::new();
                let mut panicked = false;
                let mut overran = false;
                let mut unfused = false;
                let r = catch_unwind(AssertUnwindSafe(|| {
                    loop {
                        let fuel_before = fancy_regex::verif::stats().fuel_exhausted;
                        let nx = it.next();
                        t.count("transitions", 1);
                        if let Some(st) = parse_state(&format!("{:?}", it)) {
                            trace_states.push(st);
                        }
                        match nx {
                            None => break,
                            Some(Ok(m)) => items.push(Ok((m.start(), m.end()))),
                            Some(Err(e)) => {
                                let k = if fancy_regex::verif::stats().fuel_exhausted > fuel_before { "FuelExhausted".to_string() } else { engine::err_kind(&e) };
                                items.push(Err(k));
                                break;
                            }
                        }
                        if items.len() > horizon {
                            overran = true;
                            return;
                        }
                    }
                    for _ in 0..2 {
                        if it.next().is_some() {
                            unfused = true;
                        }
                    }
                }));
                if r.is_err() {
                    panicked = true;
                }
                for s in &trace_states {
                    states.insert(*s);
                }
                if panicked {
                    t.count("panics(left to C05)", 1);
                    continue;
                }
                if overran {
                    viol(&mut t, text, format!("find_iter yields more than len+2 items: {:?}...", &items[..3.min(items.len())]));
                    continue;
                }
                if unfused {
                    viol(&mut t, text, "find_iter yields an item after it returned None / an Err".into());
                }
                // (1) invariants for every pattern
                let mut prev: Option<(usize, usize)> = None;
                for it in &items {
                    if let Ok((s, e)) = it {
                        if s > e {
                            viol(&mut t, text, format!("match ({}, {}) has start > end", s, e));
                        }
                        if let Some((ps, pe)) = prev {
                            if *s < pe || (*s, *e) <= (ps, pe) {
                                viol(&mut t, text, format!("matches not strictly increasing / overlapping: {:?} then ({}, {}) in {:?}", (ps, pe), s, e, items));
                            }
                        }
                        prev = Some((*s, *e));
                    }
                }
                // (2) the iteration model over the reference matcher (non-F1)
                let mut compared = false;
                if let Some(prog) = &prog {
                    let mut outside = false;
                    let model = itermodel::find_iter_model(text, horizon + 2, |pos, skipped| -> Result<Option<M<()>>, String> {
                        let (o, info) = refsem::search(prog, text, pos, skipped);
                        if (info.empty_iteration && !vm_owns_loops) || matches!(o, Outcome::Unknown) {
                            outside = true;
                        }
                        match o {
                            Outcome::Match(f) => {
                                let (s, e) = f.groups[0].unwrap();
                                Ok(Some(M { start: s, end: e, payload: () }))
                            }
                            _ => Ok(None),
                        }
                    });
                    if !outside {
                        compared = true;
                        let exp: Vec<Result<(usize, usize), String>> = model.iter().map(|r| r.clone().map(|m| (m.start, m.end))).collect();
                        let ok = exp == items || items.iter().any(|i| i.is_err());
                        if !ok {
                            viol(&mut t, text, format!("find_iter yields {:?}, the reference iteration yields {:?}", items, exp));
                        }
                        if is_vm && !exp.is_empty() {
                            t.nontrivial += 1;
                            t.sample(6, || jobj! {"pattern" => pattern.as_str(), "text" => text.as_str(), "find_iter" => format!("{:?}", items), "states(last_end,last_match)" => format!("{:?}", trace_states), "space" => tag});
                        }
                    } else {
                        t.count("reference_outside_domain(F1)", 1);
                    }
                }
                // (3) otherwise: the model over the engine's own find_from_pos (self-consistency of
                // the state machine); needs the skipped flag, so only without \G
                if !compared && !facts.has_contg {
                    let model = itermodel::find_iter_model(text, horizon + 2, |pos, _skipped| -> Result<Option<M<()>>, String> {
                        match engine::find_at(&re, text, pos) {
                            Out::Match(g) => {
                                let (s, e) = g[0].unwrap();
                                Ok(Some(M { start: s, end: e, payload: () }))
                            }
                            Out::NoMatch => Ok(None),
                            Out::Err(e) => Err(e),
                            Out::Panic(p) => Err(format!("Panic({})", p)),
                        }
                    });
                    let exp: Vec<Result<(usize, usize), String>> = model.iter().map(|r| r.clone().map(|m| (m.start, m.end))).collect();
                    if exp != items {
                        viol(&mut t, text, format!("find_iter yields {:?}, iterating find_from_pos by the documented rule yields {:?}", items, exp));
                    }
                    t.count("self_consistency_cases", 1);
                }
                // error histories: tiny backtrack limits
                let full: Vec<(usize, usize)> = items.iter().filter_map(|i| i.clone().ok()).collect();
                for (l, lre) in &limited {
                    t.evaluations += 1;
                    let log = engine::find_iter_log(lre, text);
                    if log.panic.is_some() {
                        continue;
                    }
                    if log.unfused {
                        viol(&mut t, text, format!("backtrack limit {}: an item is yielded after the Err", l));
                    }
                    if log.overran {
                        viol(&mut t, text, format!("backtrack limit {}: does not terminate", l));
                        continue;
                    }
                    let mut errs = 0;
                    for (i, item) in log.items.iter().enumerate() {
                        match item {
                            Ok(sp) => {
                                if errs > 0 {
                                    viol(&mut t, text, format!("backtrack limit {}: a match after an Err: {:?}", l, log.items));
                                }
                                if full.get(i) != Some(sp) {
                                    viol(&mut t, text, format!("backtrack limit {}: item {} is {:?} but the unlimited iteration yields {:?}", l, i, sp, full.get(i)));
                                }
                            }
                            Err(_) => errs += 1,
                        }
                    }
                    if errs == 0 && log.items.len() != full.len() {
                        viol(&mut t, text, format!("backtrack limit {}: {} items without error, unlimited {}", l, log.items.len(), full.len()));
                    }
                    if errs > 0 {
                        t.count("error_histories", 1);
                    }
                }
            }
        });
        t.count("max_states_per_worker", states.len() as u64);
        (t, states)
    });
    let mut all_states = BTreeSet::new();
    let mut ts = Vec::new();
    for (t, s) in tallies {
        all_states.extend(s);
        ts.push(t);
    }
    let t = Tally::merge_all(ts);
    let transitions = *t.counters.get("transitions").unwrap_or(&0);
    let evals = t.evaluations;
    finish(
        cx,
        t,
        Finish {
            rule: format!(
                "every pattern of {} (\\G and \\K at every position) x every text over {:?} up to length {} and every text over [a, euro sign, emoji] up to length 2 and U+0E01 / U+D7FF / U+FFFD / U+10FFFF alone, after and before an a (every UTF-8 lead-byte class); the real Matches iterator is driven to None (or to the horizon len+2) and polled twice more; (1) every pattern: strictly increasing, non-overlapping, start >= previous end, terminates, nothing after None/Err; (2) scoped patterns outside class F1: the whole sequence equals the iteration model over the reference matcher (skipped-empty-match flag for \\G included); (3) otherwise, without \\G: equals the model over the engine's own find_from_pos; error histories: the same iteration with backtrack limits 0,1,2 yields a prefix of the unlimited sequence, then at most one Err, then nothing; states = distinct (last_end,last_match) read from the iterator's Debug output after every next(); non-trivial = VM-compiled (pattern,text) whose reference iteration yields at least one match",
                space.describe(), alphabet, max_len
            ),
            exhaustive: true,
            bounds: jobj! {"space" => space.describe(), "max_text_len" => max_len},
            assumptions: vec!["oracle: iteration model (frmc-core/src/itermodel.rs) over the reference matcher".into()],
            extra: vec![
                ("states".into(), (all_states.len() as u64).into()),
                ("transitions".into(), transitions.into()),
                ("traces_validated_against_impl".into(), evals.into()),
            ],
        },
    )
}

pub fn run_c10(cx: &Ctx) -> i32 {
    let space = iter_space(cx);
    let alphabet = spaces::sigma4();
    let max_len = if cx.quick() { 3 } else { 4 };
    let mut texts = space::texts(&alphabet, max_len);
    // 3- and 4-byte characters (how far an iterator steps after an empty match)
    texts.extend(space::texts(&['a', '€', '😀'], 2).into_iter().filter(|t| !t.bytes().all(|b| b == b'a')));
    // one character for every UTF-8 lead-byte class not covered above (E0, ED, EF, F4)
    for c in ['\u{e01}', '\u{d7ff}', '\u{fffd}', '\u{10ffff}'] {
        texts.push(c.to_string());
        texts.push(format!("a{}", c));
        texts.push(format!("{}a", c));
    }
    let tallies = par::run_workers(32, |_w, claimer| {
        engine::quiet_panics();
        engine::set_sweep_horizons(40_000, 5_000);
        let mut t = Tally::new();
        space.for_each(claimer, &mut |node, tag| {
            let facts = ast::facts(node);
            if !facts.refs_valid {
                return;
            }
            let pattern = ast::to_pattern(node);
            let re = match engine::compile(&pattern) {
                Ok(r) => r,
                Err(_) => return,
            };
            t.programs += 1;
            let limited: Vec<(usize, fancy_regex::Regex)> = if engine::engine_class(&re).0 {
                [0usize, 1, 2].iter().filter_map(|&l| engine::compile_with(&pattern, |b| { b.backtrack_limit(l); }).ok().map(|r| (l, r))).collect()
            } else {
                vec![]
            };
            let mut viol = |t: &mut Tally, text: &str, what: String| {
                t.violation(
                    weight(&pattern, text),
                    jobj! {"kind" => "c10", "pattern" => pattern.as_str(), "text" => text, "pos" => 0, "observed" => what.as_str(),
                    "summary" => format!("/{}/ on {:?}: {}", pattern, text, what)},
                );
            };
            for text in &texts {
                // error histories (tiny backtrack limits): find_iter ends with its Err; split still has
                // one more piece than there are matches - the pieces between the matches found, the
                // Err, then the rest of the text from the end of the last match found
                for (l, lre) in &limited {
                    let lf = engine::find_iter_log(lre, text);
                    if lf.panic.is_some() || lf.overran || !lf.items.iter().any(|i| i.is_err()) {
                        continue;
                    }
                    let ok_matches: Vec<(usize, usize)> = lf.items.iter().filter_map(|i| i.clone().ok()).collect();
                    if ok_matches.iter().any(|&(s, e)| !(s <= e && e <= text.len() && text.is_char_boundary(s) && text.is_char_boundary(e))) || ok_matches.windows(2).any(|w| w[1].0 < w[0].1) {
                        continue;
                    }
                    t.evaluations += 1;
                    match engine::split_all(lre, text) {
                        None => viol(&mut t, text, format!("backtrack limit {}: split panics after a search error", l)),
                        Some(items) => {
                            let pieces: Vec<(usize, usize)> = items.iter().filter_map(|i| i.clone().ok()).collect();
                            let errs = items.iter().filter(|i| i.is_err()).count();
                            let exp = itermodel::split_model(text, &ok_matches);
                            if pieces != exp || errs != 1 {
                                viol(&mut t, text, format!("backtrack limit {}: find_iter yields {:?}; split yields {:?}, expected the pieces {:?} and exactly one Err", l, lf.items, items, exp));
                            }
                        }
                    }
                }
                let fi = engine::find_iter_log(&re, text);
                if fi.panic.is_some() || fi.overran || fi.items.iter().any(|i| i.is_err()) {
                    t.count("skipped_find_iter_error_or_panic", 1);
                    continue;
                }
                let matches: Vec<(usize, usize)> = fi.items.iter().map(|i| i.clone().unwrap()).collect();
                if matches.iter().any(|&(s, e)| !(s <= e && e <= text.len() && text.is_char_boundary(s) && text.is_char_boundary(e))) {
                    // the spans themselves are C05's subject; a split that dies on them is C10's
                    if let Some(p) = engine::split_log(&re, text).panic {
                        viol(&mut t, text, format!("split panics: {} (find_iter matches: {:?})", p, matches));
                    } else {
                        t.count("skipped_invalid_spans(left to C05)", 1);
                    }
                    continue;
                }
                if matches.windows(2).any(|w| w[1].0 < w[0].1) {
                    continue; // overlapping matches: C08's violation; slicing would be meaningless
                }
                t.evaluations += 1;
                let sp = engine::split_log(&re, text);
                if let Some(p) = &sp.panic {
                    viol(&mut t, text, format!("split panics: {}", p));
                    continue;
                }
                if sp.unfused {
                    viol(&mut t, text, "split yields an item after None".into());
                }
                let exp = itermodel::split_model(text, &matches);
                let got: Vec<(usize, usize)> = sp.items.iter().filter_map(|i| i.clone().ok()).collect();
                if got != exp || sp.overran {
                    viol(&mut t, text, format!("split yields pieces {:?}; the gaps between the find_iter matches {:?} are {:?}", got, matches, exp));
                } else {
                    // interleaving pieces and matches rebuilds the input
                    let mut rebuilt = String::new();
                    for (i, (s, e)) in got.iter().enumerate() {
                        rebuilt.push_str(&text[*s..*e]);
                        if let Some((ms, me)) = matches.get(i) {
                            rebuilt.push_str(&text[*ms..*me]);
                        }
                    }
                    if rebuilt != *text {
                        viol(&mut t, text, format!("pieces {:?} interleaved with matches {:?} give {:?}", got, matches, rebuilt));
                    }
                }
                if !matches.is_empty() {
                    t.nontrivial += 1;
                    t.sample(6, || jobj! {"pattern" => pattern.as_str(), "text" => text.as_str(), "matches" => format!("{:?}", matches), "pieces" => format!("{:?}", got), "space" => tag});
                }
                for n in 0..=5usize {
                    t.evaluations += 1;
                    t.count("transitions", (n + 2) as u64);
                    let l = engine::splitn_log(&re, text, n);
                    if let Some(p) = &l.panic {
                        viol(&mut t, text, format!("splitn({}) panics: {}", n, p));
                        continue;
                    }
                    if l.unfused {
                        viol(&mut t, text, format!("splitn({}) yields an item after None", n));
                    }
                    let exp = itermodel::splitn_model(text, &matches, n);
                    let got: Vec<(usize, usize)> = l.items.iter().filter_map(|i| i.clone().ok()).collect();
                    if got != exp {
                        viol(&mut t, text, format!("splitn({}) yields {:?}, expected {:?} (matches {:?})", n, got, exp, matches));
                    }
                }
            }
        });
        t
    });
    let mut t = Tally::merge_all(tallies);
    let tcf = crate::casefold::iter_sweep();
    t.count("casefold_iteration_sweep_runs", tcf.evaluations);
    t.merge(tcf);
    let transitions = *t.counters.get("transitions").unwrap_or(&0);
    let evals = t.evaluations;
    finish(
        cx,
        t,
        Finish {
            rule: format!(
                "{}; every pattern of {} x every text over {:?} up to length {} and every text over [a, euro sign, emoji] up to length 2 and U+0E01 / U+D7FF / U+FFFD / U+10FFFF alone, after and before an a (every UTF-8 lead-byte class) x limits 0..5; split and splitn are driven to None and polled twice more (fusedness); oracle: pieces = gaps between consecutive find_iter matches (one more piece than matches), interleaving pieces and matched texts rebuilds the input byte for byte, splitn(n) = min(n, pieces) items: the first n-1 of split and the untouched remainder, n = 0 yields nothing; error histories (VM patterns under backtrack limits 0, 1, 2 whose find_iter ends in an Err): split still yields one more piece than there are matches - the gaps between the matches found, exactly one Err, then the rest of the text - and does not panic; non-trivial = (pattern,text) with at least one match",
                crate::casefold::describe_iter(), space.describe(), alphabet, max_len
            ),
            exhaustive: true,
            bounds: jobj! {"space" => space.describe(), "max_text_len" => max_len, "limits" => "0..5"},
            assumptions: vec!["oracle: split/splitn model (frmc-core/src/itermodel.rs) over the crate's own find_iter".into()],
            extra: vec![("transitions".into(), transitions.into()), ("traces_validated_against_impl".into(), evals.into())],
        },
    )
}

fn cap_model(text: &str, groups: &[Option<(usize, usize)>], names: &HashMap<String, usize>) -> CapModel {
    CapModel { groups: groups.iter().map(|g| g.map(|(s, e)| text[s..e].to_string())).collect(), names: names.clone() }
}

pub fn run_c11(cx: &Ctx) -> i32 {
    let space = iter_space(cx);
    let alphabet = spaces::sigma4();
    let max_len = 3;
    let mut texts = space::texts(&alphabet, max_len);
    // 3- and 4-byte characters (how far an iterator steps after an empty match)
    texts.extend(space::texts(&['a', '€', '😀'], 2).into_iter().filter(|t| !t.bytes().all(|b| b == b'a')));
    // one character for every UTF-8 lead-byte class not covered above (E0, ED, EF, F4)
    for c in ['\u{e01}', '\u{d7ff}', '\u{fffd}', '\u{10ffff}'] {
        texts.push(c.to_string());
        texts.push(format!("a{}", c));
        texts.push(format!("{}a", c));
    }
    // literal runs of multi-byte characters before, between and after references (a template is cut into
    // literal runs and references: byte and character offsets must not be confused)
    let templates: Vec<&str> = vec!["x", "$0", "$1", "${g1}", "$$", "<$0|$1>", "", "$é", "[$π]", "é$0", "€😀$1é${g1}€", "aé$$€"];
    let tallies = par::run_workers(32, |_w, claimer| {
        engine::quiet_panics();
        engine::set_sweep_horizons(40_000, 5_000);
        let mut t = Tally::new();
        space.for_each(claimer, &mut |node, tag| {
            let facts = ast::facts(node);
            if !facts.refs_valid {
                return;
            }
            // group 1 is named g1 when the pattern has no references (references must then be named too)
            let named = facts.n_groups >= 1 && !facts.has_backref && !facts.has_cond;
            let pattern = if named { ast::to_pattern_named(node, Naming::Mask(1)) } else { ast::to_pattern(node) };
            let mut names = HashMap::new();
            if named {
                names.insert("g1".to_string(), 1usize);
            }
            let re = match engine::compile(&pattern) {
                Ok(r) => r,
                Err(_) => return,
            };
            t.programs += 1;
            let (is_vm, _) = engine::engine_class(&re);
            let limited: Vec<(usize, fancy_regex::Regex)> = if is_vm {
                [0usize, 1].iter().filter_map(|&l| engine::compile_with(&pattern, |b| { b.backtrack_limit(l); }).ok().map(|r| (l, r))).collect()
            } else {
                Vec::new()
            };
            let mut viol = |t: &mut Tally, text: &str, what: String| {
                t.violation(
                    weight(&pattern, text),
                    jobj! {"kind" => "c11", "pattern" => pattern.as_str(), "text" => text, "pos" => 0, "observed" => what.as_str(),
                    "summary" => format!("/{}/ on {:?}: {}", pattern, text, what)},
                );
            };
            for text in &texts {
                let ci = engine::captures_iter_log(&re, text);
                if ci.panic.is_some() || ci.overran || ci.items.iter().any(|i| i.is_err()) {
                    t.count("skipped_captures_iter_error_or_panic", 1);
                    continue;
                }
                let caps: Vec<Vec<Option<(usize, usize)>>> = ci.items.iter().map(|i| i.clone().unwrap()).collect();
                // invalid spans (C05's business) would make the model itself slice wrongly
                let span_ok = |s: usize, e: usize| s <= e && e <= text.len() && text.is_char_boundary(s) && text.is_char_boundary(e);
                if caps.iter().any(|g| g.is_empty() || g[0].is_none() || g.iter().flatten().any(|&(s, e)| !span_ok(s, e))) {
                    t.count("skipped_invalid_spans(left to C05)", 1);
                    continue;
                }
                let matches: Vec<(usize, usize)> = caps.iter().map(|g| g[0].unwrap()).collect();
                if matches.windows(2).any(|w| w[1].0 < w[0].1) {
                    continue;
                }
                if !matches.is_empty() {
                    t.nontrivial += 1;
                }
                // limits 0..3, and two limits far beyond any number of matches (a limit is an upper
                // bound chosen by the caller, not a size)
                for n in [0usize, 1, 2, 3, usize::MAX, 1usize << 59] {
                    for tpl in &templates {
                        if n > 3 && *tpl != "x" && *tpl != "$0" {
                            continue;
                        }
                        // the multi-byte literal-run templates: all matches and the first match only
                        if n > 1 && tpl.len() > 2 && !tpl.is_ascii() && !tpl.starts_with('[') {
                            continue;
                        }
                        t.evaluations += 1;
                        let exp = itermodel::replacen_model(text, &matches, n, |i| expandref::expand_default(tpl, &cap_model(text, &caps[i], &names)));
                        let got = engine::replacen_str(&re, text, n, tpl);
                        match (&exp, &got) {
                            (None, Ok((s, true))) if s == text => {}
                            (Some(e), Ok((s, false))) if s == e => {}
                            _ => viol(&mut t, text, format!("try_replacen({}, {:?}) = {:?} (borrowed flag second), expected {:?} (None = borrowed input); matches {:?}", n, tpl, got, exp, matches)),
                        }
                        // &String and Cow replacers behave like &str (one expanding and one plain template)
                        if *tpl != "<$0|$1>" && *tpl != "x" {
                            continue;
                        }
                        let owned = tpl.to_string();
                        let via_string = catch_unwind(AssertUnwindSafe(|| re.try_replacen(text, n, &owned).map(|c| c.into_owned()))).ok().and_then(|r| r.ok());
                        let cow: std::borrow::Cow<str> = std::borrow::Cow::Borrowed(tpl);
                        let via_cow = catch_unwind(AssertUnwindSafe(|| re.try_replacen(text, n, cow).map(|c| c.into_owned()))).ok().and_then(|r| r.ok());
                        let plain = got.as_ref().ok().map(|(s, _)| s.clone());
                        if via_string != plain || via_cow != plain {
                            viol(&mut t, text, format!("try_replacen({}, {:?}): &str gives {:?}, &String {:?}, Cow {:?}", n, tpl, plain, via_string, via_cow));
                        }
                    }
                    // fast path == slow path: "x" (template without $), NoExpand("x"), closure returning "x"
                    t.evaluations += 3;
                    let a = engine::replacen_str(&re, text, n, "x").ok().map(|(s, b)| (s, b));
                    let b = catch_unwind(AssertUnwindSafe(|| re.try_replacen(text, n, fancy_regex::NoExpand("x")).map(|c| (matches!(c, std::borrow::Cow::Borrowed(_)), c.into_owned())))).ok().and_then(|r| r.ok()).map(|(b, s)| (s, b));
                    let c = catch_unwind(AssertUnwindSafe(|| re.try_replacen(text, n, |_: &fancy_regex::Captures| "x").map(|c| (matches!(c, std::borrow::Cow::Borrowed(_)), c.into_owned())))).ok().and_then(|r| r.ok()).map(|(b, s)| (s, b));
                    if a != b || a != c {
                        viol(&mut t, text, format!("try_replacen({}): template \"x\" gives {:?}, NoExpand(\"x\") {:?}, closure {:?}", n, a, b, c));
                    }
                    // identity closure leaves the text unchanged
                    let id = catch_unwind(AssertUnwindSafe(|| re.try_replacen(text, n, |c: &fancy_regex::Captures| c[0].to_string()).map(|c| c.into_owned()))).ok().and_then(|r| r.ok());
                    if id.as_deref() != Some(text.as_str()) {
                        viol(&mut t, text, format!("try_replacen({}, identity closure) = {:?}", n, id));
                    }
                    // NoExpand("$0") inserts the literal text
                    let ne = catch_unwind(AssertUnwindSafe(|| re.try_replacen(text, n, fancy_regex::NoExpand("$0")).map(|c| c.into_owned()))).ok().and_then(|r| r.ok());
                    let exp = itermodel::replacen_model(text, &matches, n, |_| "$0".to_string()).unwrap_or_else(|| text.clone());
                    if ne.as_deref() != Some(exp.as_str()) {
                        viol(&mut t, text, format!("try_replacen({}, NoExpand(\"$0\")) = {:?}, expected {:?}", n, ne, exp));
                    }
                }
                if !matches.is_empty() {
                    t.sample(6, || jobj! {"pattern" => pattern.as_str(), "text" => text.as_str(), "matches" => format!("{:?}", matches), "replace_all($0|$1)" => format!("{:?}", engine::replacen_str(&re, text, 0, "<$0|$1>")), "space" => tag});
                }
                // a search error is an Err, never a panic
                for (l, lre) in &limited {
                    for tpl in ["x", "$0"] {
                        t.evaluations += 1;
                        // the searches replace_all makes are those of find_iter (template without $)
                        // or captures_iter (with $): it must fail iff one of them fails, and
                        // otherwise give the unlimited result
                        let searches_fail = if tpl.contains('$') {
                            let log = engine::captures_iter_log(lre, text);
                            log.panic.is_some() || log.items.iter().any(|i| i.is_err())
                        } else {
                            let log = engine::find_iter_log(lre, text);
                            log.panic.is_some() || log.items.iter().any(|i| i.is_err())
                        };
                        match engine::replacen_str(lre, text, 0, tpl) {
                            Err(e) if e.starts_with("Panic") => viol(&mut t, text, format!("backtrack limit {}: try_replacen(0, {:?}) panics: {}", l, tpl, e)),
                            Err(_) => {
                                t.count("error_results", 1);
                                if !searches_fail {
                                    viol(&mut t, text, format!("backtrack limit {}: try_replacen(0, {:?}) is an Err although none of its searches fails", l, tpl));
                                }
                            }
                            Ok(got) => {
                                if searches_fail {
                                    viol(&mut t, text, format!("backtrack limit {}: try_replacen(0, {:?}) returns Ok({:?}) although a search of the iteration fails with the limit error: the error is swallowed", l, tpl, got.0));
                                } else if let Ok(full) = engine::replacen_str(&re, text, 0, tpl) {
                                    if full != got {
                                        viol(&mut t, text, format!("backtrack limit {}: try_replacen(0, {:?}) = {:?} but without a limit {:?}", l, tpl, got, full));
                                    }
                                }
                            }
                        }
                    }
                }
            }
        });
        t
    });
    let t = Tally::merge_all(tallies);
    finish(
        cx,
        t,
        Finish {
            rule: format!(
                "every pattern of {} (group 1 named g1 where the pattern has no references) x every text over {:?} up to length {} and every text over [a, euro sign, emoji] up to length 2 and U+0E01 / U+D7FF / U+FFFD / U+10FFFF alone, after and before an a (every UTF-8 lead-byte class) x limits 0..3, usize::MAX and 2^59 x replacers: templates {:?} as &str, &String and Cow, NoExpand, constant and identity closures; oracle: the first n matches of the crate's own captures_iter (all if n = 0) replaced by the reference expansion (frmc-core/src/expandref.rs), every other byte copied, Cow::Borrowed iff there is no match; fast path == slow path (template without $, NoExpand of the same string, closure returning it); with backtrack limits 0 and 1 the result is an Err, never a panic; non-trivial = (pattern,text) with at least one match",
                space.describe(), alphabet, max_len, templates
            ),
            exhaustive: true,
            bounds: jobj! {"space" => space.describe(), "max_text_len" => max_len, "limits" => "0..3"},
            assumptions: vec!["oracle: replacen model over the crate's own captures_iter; reference template expander written from the documentation".into()],
            extra: vec![],
        },
    )
}
