//! C18: a compiled regex can be used from many threads at once.
//! E3: iterative preemption-bounded exploration of real OS threads (baton passing) with a
//! scheduling point at every VM instruction (hook H4).

use crate::common::*;
use crate::engine::{self, Out};
use fancy_regex::Regex;
use frmc_core::jobj;
use frmc_core::json::J;
use frmc_core::sched::{self, Scheduler, Trace};
use std::collections::BTreeSet;
use std::panic::{catch_unwind, AssertUnwindSafe};

/// Shares a value between the harness threads even if it is not `Sync`: the compile-time bound is
/// asserted separately (crate c18static), so that a `Regex` that lost `Sync` still builds here and
/// then fails the schedule exploration through real races.
struct ForceShare<T>(T);
unsafe impl<T> Send for ForceShare<T> {}
unsafe impl<T> Sync for ForceShare<T> {}

struct Item {
    pattern: &'static str,
    backtrack_limit: Option<usize>,
    /// one text per thread (a different text per thread, so that cross-talk changes a result)
    texts: [&'static str; 3],
}

fn corpus() -> Vec<Item> {
    vec![
        Item { pattern: r"(a|ab)(c|bcd)\2?(?=d*)(\w)", backtrack_limit: None, texts: ["abcdd", "xacce", "abcdbcdé"] },
        Item { pattern: r"(?:(a)|b(?=c))*c", backtrack_limit: None, texts: ["abcx", "aabc", "bcac"] },
        Item { pattern: r"(?>a+|b)c\b", backtrack_limit: None, texts: ["aac d", "bc", "xaacé c"] },
        Item { pattern: r"(x+x+)+(?=y)", backtrack_limit: Some(10_000), texts: ["xxxxy", "xxxz", "xxy"] },
        Item { pattern: r"(?<=(a))b(?(1)c|d)", backtrack_limit: None, texts: ["abc", "xabd", "bab c"] },
        Item { pattern: r"(?i)(\w+) \1", backtrack_limit: None, texts: ["ab AB", "xy xz xz", "é é"] },
        Item { pattern: r"\d+(?!\.)", backtrack_limit: None, texts: ["12.5 7", "3.", "x99"] },
        Item { pattern: r"^(?:(?=(\w))\1)+$", backtrack_limit: None, texts: ["abc", "ab c", "é1"] },
        Item { pattern: r"a*b", backtrack_limit: None, texts: ["aaab", "xb", "aé"] },
        Item { pattern: r"(\w+)@(\w+)", backtrack_limit: None, texts: ["me@host", "x @y a@b", "é@é"] },
        Item { pattern: r"(a)|b\K(c)", backtrack_limit: None, texts: ["bc", "a", "xbca"] },
        // tight backtrack budgets: a budget shared between searches, or reset by another search,
        // changes a result (the limits are chosen so that some texts just fit and others exceed)
        Item { pattern: r"(?:a|b)*(?=c)", backtrack_limit: Some(30), texts: ["aabx", "ababababababx", "ax"] },
        Item { pattern: r"(\w+)\s\1(?=!)", backtrack_limit: Some(6), texts: ["ab ab!", "abcdef abcdex abcdef?", "a b"] },
        Item { pattern: r"(?:(?>(a)|b)){2}", backtrack_limit: None, texts: ["ab", "ba", "bb"] },
        // \G with an iteration that skips an empty match on one thread while another thread searches
        // (state that the iterators hand to the search must be per call, not per Regex)
        Item { pattern: r"\G\d*", backtrack_limit: None, texts: ["1 2", "1", "12 3"] },
        Item { pattern: r"(?:\G|,)(\w*)", backtrack_limit: None, texts: [" ,,", "a,b", "x"] },
        // one delegated piece with four capture groups (a slot buffer larger than a small inline array)
        Item { pattern: r"(a)(b)(c)(d)(?=e)", backtrack_limit: None, texts: ["abcde", " abcde", "abcdx"] },
    ]
}

/// Items for the free-running stress pass only: long texts (deep backtrack stacks, large buffers),
/// whose schedule space is far too large for the exhaustive explorer.
fn stress_extra() -> Vec<Item> {
    fn leak(s: String) -> &'static str {
        Box::leak(s.into_boxed_str())
    }
    let long = |head: &str, fill: &str, n: usize, tail: &str| leak(format!("{}{}{}", head, fill.repeat(n), tail));
    vec![
        Item { pattern: r"(\w)[^!]*\1!", backtrack_limit: None, texts: [long("a", "b", 600, "a!"), long("x", "yz", 400, "x!"), long("q", "r", 1100, "s!")] },
        Item { pattern: r"(?:(a)|b(?=.))*c", backtrack_limit: None, texts: [long("", "ab", 700, "c"), long("", "a", 1300, "c"), long("", "ba", 520, "c")] },
    ]
}

type Obs = Vec<Vec<String>>; // per thread, per call

fn sequential(re: &Regex, texts: &[&str], calls: usize) -> Obs {
    // thread i starts with entry point i (so that with one call per thread one thread searches
    // while the other iterates)
    texts.iter().enumerate().map(|(tid, t)| (0..calls).map(|c| one_call(re, t, c + tid)).collect()).collect()
}

fn one_call(re: &Regex, text: &str, call: usize) -> String {
    // alternate the entry points
    match call % 2 {
        0 => engine::captures_at(re, text, 0).short(),
        _ => {
            let l = engine::find_iter_log(re, text);
            format!("{:?}{}", l.items, l.panic.map(|p| format!(" panic: {}", p)).unwrap_or_default())
        }
    }
}

struct Job {
    sch: Scheduler,
    re: std::sync::Arc<ForceShare<Regex>>,
    text: &'static str,
    calls: usize,
}

/// K persistent actor threads (thread creation is far more expensive than a schedule).
struct Pool {
    txs: Vec<std::sync::mpsc::Sender<Job>>,
    rxs: Vec<std::sync::mpsc::Receiver<Vec<String>>>,
}

impl Pool {
    fn new(k: usize) -> Pool {
        let mut txs = Vec::new();
        let mut rxs = Vec::new();
        for tid in 0..k {
            let (tx, rx) = std::sync::mpsc::channel::<Job>();
            let (otx, orx) = std::sync::mpsc::channel::<Vec<String>>();
            std::thread::spawn(move || {
                engine::quiet_panics();
                while let Ok(job) = rx.recv() {
                    let sch2 = job.sch.clone();
                    fancy_regex::verif::set_sched_hook(Some(Box::new(move |site| sch2.point(tid, site))));
                    job.sch.thread_start(tid);
                    let mut out = Vec::new();
                    for c in 0..job.calls {
                        let re: &Regex = &job.re.0;
                        let r = catch_unwind(AssertUnwindSafe(|| one_call(re, job.text, c + tid)));
                        out.push(r.unwrap_or_else(|p| format!("PANIC: {}", engine::panic_msg(p))));
                    }
                    fancy_regex::verif::set_sched_hook(None);
                    job.sch.thread_finish(tid);
                    if otx.send(out).is_err() {
                        break;
                    }
                }
            });
            txs.push(tx);
            rxs.push(orx);
        }
        Pool { txs, rxs }
    }

    /// Run one schedule on the pool's threads.
    fn run_schedule(&self, res: &[std::sync::Arc<ForceShare<Regex>>], shared: bool, texts: &[&'static str], calls: usize, prefix: &[usize]) -> (Trace, Obs) {
        let k = texts.len();
        let sch = Scheduler::new(k, prefix.to_vec());
        for tid in 0..k {
            let re = if shared { res[0].clone() } else { res[tid].clone() };
            self.txs[tid].send(Job { sch: sch.clone(), re, text: texts[tid], calls }).expect("actor alive");
        }
        sch.start();
        let obs: Obs = (0..k).map(|tid| self.rxs[tid].recv_timeout(std::time::Duration::from_secs(120)).unwrap_or_else(|_| vec!["THREAD DID NOT FINISH".into()])).collect();
        (sch.trace(), obs)
    }
}

pub fn run_c18(cx: &Ctx) -> i32 {
    engine::quiet_panics();
    // the controlling thread is the first thread of the process to run the VM
    let _ = Regex::new("a(?=b)").map(|r| r.is_match("ab"));
    // Explorations of different corpus items (and sub-trees of one exploration) run concurrently.
    // That is sound only while searches do not influence each other; if a replay diverges or does
    // not reproduce, everything is redone strictly one schedule at a time, and a divergence that
    // persists there is cross-talk between searches (a violation), not a machinery error.
    match run_mode(cx, false) {
        Some(code) => code,
        None => {
            eprintln!("C18: a replayed schedule diverged in the concurrent exploration; redoing the exploration serially");
            run_mode(cx, true).unwrap_or(2)
        }
    }
}

/// The free-running stress pass (runs in a child process: a data race in unsafe code can corrupt
/// memory and kill the process, which must become a verdict, not a dead harness).
fn stress_pass(quick: bool) -> (u64, Vec<J>) {
    let mut out: Vec<J> = Vec::new();
    // Supplementary, labelled SAMPLING (not part of the exhaustive coverage): the same bodies on
    // free-running OS threads. It reaches what the cooperative scheduler cannot separate (an
    // unsynchronised access pair between two hook points, e.g. inside one Delegate instruction).
    // The oracle is exact (the sequential result), so it can only confirm a violation.
    let stress_rounds = if quick { 1500 } else { 10000 };
    let mut stress_calls = 0u64;
    for item in corpus().into_iter().chain(stress_extra()) {
        let re = match engine::compile_with(item.pattern, |b| {
            if let Some(l) = item.backtrack_limit {
                b.backtrack_limit(l);
            }
        }) {
            Ok(r) => ForceShare(r),
            Err(_) => continue,
        };
        let expected: Vec<[String; 2]> = item.texts.iter().map(|t| [one_call(&re.0, t, 0), one_call(&re.0, t, 1)]).collect();
        let bad: std::sync::Mutex<Option<(usize, usize, String)>> = std::sync::Mutex::new(None);
        // more threads than regex-automata's pool has stacks (8), so that non-owner threads share one
        let nthreads = 24usize;
        {
            let go = std::sync::atomic::AtomicBool::new(false);
            let go = &go;
            let work = |th: usize| {
                let (re, expected, bad, item) = (&re, &expected, &bad, &item);
                {
                    engine::quiet_panics();
                    let re: &Regex = &re.0;
                    let local = if th % 2 == 0 { None } else { Some(re.clone()) };
                    // long texts: fewer rounds, single searches only (an iteration over a long text
                    // that does not match is quadratic)
                    let long = item.texts[0].len() > 100;
                    // the other threads make their first search on this Regex while the controlling
                    // thread is already searching (the window of first-use / owner-claim races)
                    if th < nthreads {
                        while !go.load(std::sync::atomic::Ordering::Acquire) {
                            std::hint::spin_loop();
                        }
                    }
                    for r in 0..(if long { stress_rounds / 10 } else { stress_rounds }) {
                        if th == nthreads && r == 1 {
                            go.store(true, std::sync::atomic::Ordering::Release);
                        }
                        let ti = (th + r) % 3;
                        let rr = local.as_ref().unwrap_or(re);
                        let kind = if long { 0 } else { (th / 2 + r) % 2 };
                        let got = catch_unwind(AssertUnwindSafe(|| one_call(rr, item.texts[ti], kind))).unwrap_or_else(|p| format!("PANIC: {}", engine::panic_msg(p)));
                        if got != expected[ti][kind] {
                            let mut b = bad.lock().unwrap();
                            if b.is_none() {
                                *b = Some((ti, kind, got));
                            }
                            return;
                        }
                    }
                }
            };
            let work = &work;
            std::thread::scope(|s| {
                for th in 0..nthreads {
                    s.spawn(move || work(th));
                }
                // the controlling thread takes part as well: it has used this Regex (and the VM) before
                // any of the other threads existed - the "first thread" of owner-style caches
                work(nthreads);
                go.store(true, std::sync::atomic::Ordering::Release);
            });
        }
        stress_calls += ((nthreads + 1) * stress_rounds) as u64;
        if let Some((ti, kind, got)) = bad.into_inner().unwrap() {
            out.push(
                jobj! {"kind" => "c18-stress", "pattern" => item.pattern, "text" => item.texts[ti], "expected" => expected[ti][kind].as_str(), "observed" => got.as_str(),
                "summary" => format!("free-running stress (24 threads, sampling): /{}/ on {:?} ({}) returned {} instead of the sequential result {}", item.pattern, item.texts[ti], if kind == 0 { "captures" } else { "find_iter" }, got, expected[ti][kind])},
            );
        }
    }
    (stress_calls, out)
}

/// `frmc c18-stress quick|thorough`: prints "CALLS n" and one "V <json>" line per violation.
pub fn stress_worker(args: &[String]) -> i32 {
    engine::quiet_panics();
    // the controlling thread is the first thread of the process to run the VM
    let _ = Regex::new("a(?=b)").map(|r| r.is_match("ab"));
    let (calls, v) = stress_pass(args.first().map(|s| s == "quick").unwrap_or(true));
    println!("CALLS {}", calls);
    for j in v {
        println!("V {}", j.to_string_compact());
    }
    0
}

fn run_mode(cx: &Ctx, serial: bool) -> Option<i32> {
    let mut t = Tally::new();
    if std::env::var("FRMC_C18_STATIC_FAILED").is_ok() {
        t.violation(
            0,
            jobj! {"kind" => "c18-static", "observed" => "the crate c18static (fn _a<T: Send + Sync + Clone>(); _a::<fancy_regex::Regex>()) does not compile",
            "summary" => "Regex is not Send + Sync + Clone (compiler output: /verif/replays/C18/static_bound.txt)"},
        );
    } else {
        t.count("static_bound_Send_Sync_Clone_compiles", 1);
    }
    // (threads, preemption bound, calls per thread)
    let configs: Vec<(usize, usize, usize)> = if cx.quick() { vec![(2, 2, 1)] } else { vec![(2, 3, 1), (2, 2, 2), (3, 2, 1)] };
    let max_schedules = if cx.quick() { 40_000 } else { 400_000 };
    let mut states = 0u64;
    let mut transitions = 0u64;
    let mut schedules_total = 0u64;
    let mut per_item = Vec::new();
    let mut capped_any = false;
    let mut replay_deterministic = true;
    struct JobOut {
        json: J,
        schedules: u64,
        decisions: u64,
        points: u64,
        capped: bool,
        deterministic: bool,
        is_vm: bool,
        violation: Option<(usize, u64, J)>,
        sample: J,
        err: Option<String>,
    }
    let items = corpus();
    let mut jobs: Vec<(usize, usize, usize, usize, bool)> = Vec::new();
    for (ii, _) in items.iter().enumerate() {
        for &(k, bound, calls) in &configs {
            for shared in [true, false] {
                jobs.push((ii, k, bound, calls, shared));
            }
        }
    }
    let next = std::sync::atomic::AtomicUsize::new(0);
    // few jobs at a time, each exploration itself parallel (the schedule counts are very uneven)
    let outer_workers = if serial { 1 } else { 2usize };
    let inner_workers = if serial { 1 } else { (frmc_core::par::n_threads() / outer_workers).max(1) };
    let outs: Vec<JobOut> = std::thread::scope(|s| {
        let hs: Vec<_> = (0..outer_workers)
            .map(|_| {
                s.spawn(|| {
                    let mut mine = Vec::new();
                    loop {
                        let j = next.fetch_add(1, std::sync::atomic::Ordering::Relaxed);
                        if j >= jobs.len() {
                            break;
                        }
                        let (ii, k, bound, calls, shared) = jobs[j];
                        let item = &items[ii];
                        let build = || {
                            engine::compile_with(item.pattern, |b| {
                                if let Some(l) = item.backtrack_limit {
                                    b.backtrack_limit(l);
                                }
                            })
                        };
                        let re0 = match build() {
                            Ok(r) => r,
                            Err(e) => {
                                mine.push((j, JobOut { json: J::Null, schedules: 0, decisions: 0, points: 0, capped: false, deterministic: true, is_vm: false, violation: None, sample: J::Null, err: Some(format!("corpus pattern {} does not compile: {:?}", item.pattern, e)) }));
                                continue;
                            }
                        };
                        let (is_vm, _) = engine::engine_class(&re0);
                        let texts: Vec<&'static str> = item.texts[..k].to_vec();
                        let expected = sequential(&re0, &texts, calls);
                        // clones are made before the threads start
                        let res: Vec<std::sync::Arc<ForceShare<Regex>>> =
                            if shared { vec![std::sync::Arc::new(ForceShare(build().unwrap()))] } else { (0..k).map(|_| std::sync::Arc::new(ForceShare(re0.clone()))).collect() };
                        let pools: Vec<std::sync::Mutex<Pool>> = (0..inner_workers).map(|_| std::sync::Mutex::new(Pool::new(k))).collect();
                        struct Acc {
                            outcomes: BTreeSet<String>,
                            failures: u64,
                            first_failure: Option<(Vec<usize>, Obs)>,
                            points: u64,
                            decisions: u64,
                            first: bool,
                            deterministic: bool,
                        }
                        let acc = std::sync::Mutex::new(Acc { outcomes: BTreeSet::new(), failures: 0, first_failure: None, points: 0, decisions: 0, first: true, deterministic: true });
                        let r = sched::explore_par(bound, max_schedules, inner_workers, &|wid, prefix| {
                            let (tr, obs) = pools[wid].lock().unwrap().run_schedule(&res, shared, &texts, calls, prefix);
                            let (is_first, is_first_failure) = {
                                let mut a = acc.lock().unwrap();
                                a.points = a.points.max(tr.points.len() as u64);
                                a.decisions += tr.points.len() as u64;
                                a.outcomes.insert(format!("{:?}", obs));
                                let f = a.first;
                                a.first = false;
                                let mut ff = false;
                                if obs != expected {
                                    a.failures += 1;
                                    if a.first_failure.is_none() {
                                        ff = true;
                                        a.first_failure = Some((tr.points.iter().map(|p| p.choice).collect(), obs.clone()));
                                    }
                                }
                                (f, ff)
                            };
                            if is_first || is_first_failure {
                                // replay once more: identical observations and trace (a failing
                                // schedule must reproduce before it is reported)
                                let choices: Vec<usize> = tr.points.iter().map(|p| p.choice).collect();
                                let (tr2, obs2) = pools[wid].lock().unwrap().run_schedule(&res, shared, &texts, calls, &choices);
                                if obs2 != obs || tr2.points != tr.points {
                                    acc.lock().unwrap().deterministic = false;
                                }
                            }
                            Ok(tr)
                        });
                        let Acc { outcomes, failures, first_failure, points, decisions, deterministic, .. } = acc.into_inner().unwrap();
                        let (n, capped) = match r {
                            Ok(x) => x,
                            Err(e) => {
                                mine.push((j, JobOut { json: J::Null, schedules: 0, decisions: 0, points: 0, capped: false, deterministic: true, is_vm, violation: None, sample: J::Null, err: Some(e) }));
                                continue;
                            }
                        };
                        let json = jobj! {"pattern" => item.pattern, "threads" => k, "preemption_bound" => bound, "calls_per_thread" => calls, "shared" => shared,
                            "schedules" => n, "scheduling_points_per_execution" => points, "distinct_outcomes" => outcomes.len(), "failing_schedules" => failures, "capped" => capped, "vm" => is_vm};
                        let violation = first_failure.map(|(choices, obs)| {
                            (
                                choices.len(),
                                failures,
                                jobj! {"kind" => "c18", "pattern" => item.pattern, "threads" => k, "shared" => shared, "calls" => calls, "texts" => texts.iter().map(|s| s.to_string()).collect::<Vec<_>>(),
                                "schedule" => choices.clone(), "expected" => format!("{:?}", expected), "observed" => format!("{:?}", obs),
                                "summary" => format!("/{}/ {} threads ({}): {} of {} schedules with <= {} preemptions differ from the sequential results; first: expected {:?} observed {:?}", item.pattern, k, if shared { "shared &Regex" } else { "clones" }, failures, n, bound, expected, obs)},
                            )
                        });
                        let sample = jobj! {"pattern" => item.pattern, "texts" => texts.iter().map(|s| s.to_string()).collect::<Vec<_>>(), "sequential_results" => format!("{:?}", expected), "schedules" => n, "points_per_execution" => points};
                        mine.push((j, JobOut { json, schedules: n as u64, decisions, points, capped, deterministic, is_vm, violation, sample, err: None }));
                    }
                    mine
                })
            })
            .collect();
        let mut all: Vec<(usize, JobOut)> = hs.into_iter().flat_map(|h| h.join().expect("job thread")).collect();
        all.sort_by_key(|x| x.0);
        all.into_iter().map(|x| x.1).collect()
    });
    let mut cross_talk: Vec<String> = Vec::new();
    for o in outs {
        if let Some(e) = o.err {
            if e.starts_with("replay diverged") {
                if !serial {
                    return None;
                }
                cross_talk.push(e);
                continue;
            }
            eprintln!("machinery: {}", e);
            return Some(2);
        }
        capped_any |= o.capped;
        replay_deterministic &= o.deterministic;
        schedules_total += o.schedules;
        transitions += o.decisions;
        states += o.points;
        t.evaluations += o.schedules;
        t.programs += 1;
        if o.is_vm {
            t.nontrivial += o.schedules;
        }
        per_item.push(o.json);
        if let Some((w, failures, case)) = o.violation {
            t.n_violations += failures - 1;
            t.violation(w, case);
        }
        if t.samples.len() < 4 {
            t.samples.push(o.sample);
        }
    }
    if !replay_deterministic {
        if !serial {
            return None;
        }
        cross_talk.push("a replayed schedule did not reproduce its observations".into());
    }
    for c in cross_talk {
        // strictly one schedule at a time and the scheduler owns every choice, yet the same choice
        // sequence does not lead to the same execution: earlier searches influence later ones
        t.violation(
            1,
            jobj! {"kind" => "c18-crosstalk", "observed" => c.as_str(),
            "summary" => format!("with one schedule running at a time, replaying a recorded schedule does not reproduce it ({}): searches influence each other through state that outlives a search", c)},
        );
    }
    // Supplementary, labelled SAMPLING (not part of the exhaustive coverage): the same bodies on
    // free-running OS threads, in a child process (stress_pass). It reaches what the cooperative
    // scheduler cannot separate (an unsynchronised access pair between two hook points, e.g. inside
    // one Delegate instruction). The oracle is exact (the sequential result), so it can only confirm
    // a violation; a child killed by a signal is one too (safe API, memory corrupted under
    // concurrent use).
    let mut stress_calls = 0u64;
    {
        let exe = std::env::current_exe().expect("current exe");
        let outp = std::process::Command::new(&exe).args(["c18-stress", if cx.quick() { "quick" } else { "thorough" }]).stderr(std::process::Stdio::null()).output();
        match outp {
            Err(e) => {
                eprintln!("machinery error: cannot start the stress process: {}", e);
                return Some(2);
            }
            Ok(o) => {
                for line in String::from_utf8_lossy(&o.stdout).lines() {
                    if let Some(n) = line.strip_prefix("CALLS ") {
                        stress_calls = n.trim().parse().unwrap_or(0);
                    } else if let Some(j) = line.strip_prefix("V ") {
                        if let Ok(case) = frmc_core::json::parse(j) {
                            t.violation(2, case);
                        }
                    }
                }
                if !o.status.success() {
                    t.violation(
                        1,
                        jobj! {"kind" => "c18-stress", "observed" => format!("{:?}", o.status),
                        "summary" => format!("free-running stress (24 threads + the controlling thread, sampling): the process died ({:?}) while one Regex was used from several threads through the safe API - memory was corrupted", o.status)},
                    );
                }
            }
        }
    }
    t.count("beyond_exhaustive_stress_calls(sampling)", stress_calls);
    t.count("schedules", schedules_total);
    t.count(if serial { "mode_serial" } else { "mode_concurrent_explorations" }, 1);
    if capped_any {
        t.count("explorations_capped", 1);
    }
    Some(finish(
        cx,
        t,
        Finish {
            rule: format!(
                "static: the separate crate c18static asserting Regex: Send + Sync + Clone must compile. Dynamic (E3): for each of the {} corpus patterns (VM programs with delegates, groups, look-around, backreference, atomic group, counted repeat, conditional, \\K, \\G; and whole-pattern hand-off), configurations (threads, preemption bound, calls per thread) {:?}, on one shared &Regex and on clones: every schedule with at most that many preemptions is executed on real OS threads (baton passing; scheduling points at run entry/exit and before every VM instruction, hook H4; switching away from a finished thread is free); oracle: every call (captures / find_iter; thread i starts with entry point i, so that one thread iterates while another searches) returns exactly its sequential result, no panic; the first schedule and every failing schedule are replayed and must reproduce; supplementary and labelled as sampling (not counted in the coverage): the same calls, and two patterns on texts of 600-1300 characters, on 24 free-running threads plus the controlling thread (the first thread of the process to have used the VM and each Regex); distinct_nontrivial = schedules of VM-compiled patterns",
                corpus().len(),
                configs
            ),
            exhaustive: !capped_any,
            bounds: jobj! {"configurations" => format!("{:?}", configs), "max_schedules_per_exploration" => max_schedules},
            assumptions: vec![
                "interleavings are explored at hook points only; races inside regex-automata's pool are not explored (trusted)".into(),
                "an unsynchronised access pair that lies between two consecutive hook points is not separated by the scheduler".into(),
            ],
            extra: vec![
                ("states".into(), states.into()),
                ("transitions".into(), transitions.into()),
                ("traces_validated_against_impl".into(), schedules_total.into()),
                ("schedules".into(), schedules_total.into()),
                ("replay_deterministic".into(), J::Bool(replay_deterministic)),
                ("explorations".into(), J::Arr(per_item)),
            ],
        },
    ))
}

pub fn bench() {
    engine::quiet_panics();
    let re = Regex::new(r"(x+x+)+(?=y)").unwrap();
    let res = vec![std::sync::Arc::new(ForceShare(re))];
    let texts = vec!["xxxxy", "xxxxxz"];
    let pool = Pool::new(2);
    let t0 = std::time::Instant::now();
    let n = 2000;
    for _ in 0..n {
        let _ = pool.run_schedule(&res, true, &texts, 1, &[]);
    }
    println!("{} schedules (no preemption) in {:?} => {:?} each", n, t0.elapsed(), t0.elapsed() / n);
    let t0 = std::time::Instant::now();
    for _ in 0..n {
        let _ = pool.run_schedule(&res, true, &texts, 1, &[0, 0, 0, 1, 0, 0, 1]);
    }
    println!("{} schedules (2 preemptions) in {:?} => {:?} each", n, t0.elapsed(), t0.elapsed() / n);
}
