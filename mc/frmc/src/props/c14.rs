//! C14: builder options act the same on fancy and plain patterns.

use crate::common::*;
use crate::casefold;
use crate::engine::{self, Out};
use crate::refsweep::weight;
use crate::spaces::Space;
use frmc_core::ast::{self, lit, Mode, Node, A};
use frmc_core::jobj;
use frmc_core::par;
use frmc_core::space::{self, Grammar, Unary};

fn grammar() -> Grammar {
    Grammar {
        atoms: vec![
            lit("a"),
            lit("B"),
            Node::Set(vec!['a', 'B'], false),
            Node::Dot,
            Node::Word,
            Node::Assert(A::WordB),
            Node::Backref(1),
            Node::KeepOut,
            Node::FlagGroup("-i".into(), Box::new(lit("b"))),
            Node::FlagGroup("i".into(), Box::new(lit("a"))),
        ],
        unary: vec![
            Unary::Group,
            Unary::Atomic,
            Unary::Look(ast::LookKind::Ahead),
            Unary::Look(ast::LookKind::AheadNeg),
            Unary::Look(ast::LookKind::Behind),
            Unary::Rep(0, Some(1), Mode::Greedy),
            Unary::Rep(0, None, Mode::Greedy),
            Unary::Rep(1, None, Mode::Lazy),
            Unary::Rep(2, Some(2), Mode::Greedy),
            Unary::FlagGroup("-i"),
            Unary::FlagGroup("i"),
        ],
        concat: true,
        alt: true,
        cond_group: false,
        cond_expr: false,
        empty_alt: false,
    }
}

/// large plain pieces and the hosts that embed them as one delegated piece of a VM program
const LARGE: &[&str] = &["\\w{60}", "[a-z0-9]{200}", "(?:\\w\\d){40}", "\\pL{30}"];
const HOSTS: &[(&str, &str)] = &[("", ""), ("(?=)", ""), ("x", "(?=)"), ("(", ")\\1"), ("(?>", ")"), ("(?<=a)", ""), ("(?!x)", "y")];

pub fn run_c14(cx: &Ctx) -> i32 {
    let k = if cx.quick() { 4 } else { 5 };
    let space = Space::new().exh("mixed-case", grammar(), k).ctxfill(2, 1, &|_| true);
    let alphabet = vec!['a', 'A', 'b', 'B'];
    let max_len = 3;
    let texts = space::texts(&alphabet, max_len);
    let tallies = par::run_workers(16, |w, claimer| {
        engine::quiet_panics();
        engine::set_sweep_horizons(40_000, 5_000);
        let mut t = Tally::new();
        // part 2 (once): size limits apply to each delegated piece of a fancy pattern
        if w == 0 {
            for large in LARGE {
                for limit in [10usize, 1_000] {
                    let plain_fails = engine::compile_with(large, |b| {
                        b.delegate_size_limit(limit);
                    })
                    .is_err();
                    let plain_default_ok = engine::compile(large).is_ok();
                    if !plain_fails || !plain_default_ok {
                        t.count("size_limit_probe_not_discriminating", 1);
                        continue;
                    }
                    for (pre, post) in HOSTS {
                        let pattern = format!("{}{}{}", pre, large, post);
                        t.evaluations += 1;
                        t.programs += 1;
                        let def = engine::compile(&pattern);
                        let lim = engine::compile_with(&pattern, |b| {
                            b.delegate_size_limit(limit);
                        });
                        let def = match def {
                            Ok(r) => r,
                            Err(_) => {
                                t.count("size_limit_host_does_not_compile", 1);
                                continue;
                            }
                        };
                        // only hosts that really hand the large piece to the automata engine as
                        // one delegated piece (a group in a hard context is decomposed instead)
                        let prog_text = engine::program_text(&def);
                        let delegated_whole = prog_text.lines().any(|l| l.contains("Delegate") && l.contains(&large.replace('\\', "\\\\")));
                        if !delegated_whole && engine::engine_class(&def).0 {
                            t.count("size_limit_piece_not_delegated_as_a_whole(skipped)", 1);
                            continue;
                        }
                        t.nontrivial += 1;
                        match lim {
                            Err(engine::CompileFail::Err(k)) if k == "Compile:InnerError" => {}
                            other => t.violation(
                                pattern.len(),
                                jobj! {"kind" => "c14", "pattern" => pattern.as_str(), "text" => "", "pos" => 0, "observed" => format!("{:?}", other.as_ref().map(|_| "Ok").map_err(|e| format!("{:?}", e))),
                                "summary" => format!("delegate_size_limit({}) makes the plain pattern /{}/ fail to build, but the fancy pattern /{}/ containing it as a delegated piece builds: {:?}", limit, large, pattern, other.as_ref().map(|_| "Ok").map_err(|e| format!("{:?}", e)))},
                            ),
                        }
                        // ample limits change nothing
                        let ample = engine::compile_with(&pattern, |b| {
                            b.delegate_size_limit(50 << 20).delegate_dfa_size_limit(50 << 20).backtrack_limit(10_000_000);
                        });
                        if ample.is_err() {
                            t.violation(
                                pattern.len(),
                                jobj! {"kind" => "c14", "pattern" => pattern.as_str(), "text" => "", "pos" => 0, "observed" => "ample limits fail",
                                "summary" => format!("/{}/ builds by default but not with ample limits", pattern)},
                            );
                        }
                    }
                }
            }
        }
        space.for_each(claimer, &mut |node, tag| {
            let facts = ast::facts(node);
            if !facts.refs_valid {
                return;
            }
            let pattern = ast::to_pattern(node);
            let prefixed = format!("(?i){}", pattern);
            let unset = match engine::compile(&pattern) {
                Ok(r) => r,
                Err(_) => return,
            };
            let with_prefix = match engine::compile(&prefixed) {
                Ok(r) => r,
                Err(_) => return,
            };
            let opt_true = engine::compile_with(&pattern, |b| {
                b.case_insensitive(true);
            });
            let opt_false = engine::compile_with(&pattern, |b| {
                b.case_insensitive(false);
            });
            let ample = engine::compile_with(&pattern, |b| {
                b.delegate_size_limit(50 << 20).delegate_dfa_size_limit(50 << 20).backtrack_limit(10_000_000);
            });
            // backtrack_limit applies to fancy patterns as documented: "if this limit is exceeded,
            // execution returns an error"
            let limit1 = engine::compile_with(&pattern, |b| {
                b.backtrack_limit(1);
            });
            t.programs += 1;
            let (is_vm, _) = engine::engine_class(&unset);
            t.count(if is_vm { "programs_vm" } else { "programs_wrapped" }, 1);
            let mut viol = |t: &mut Tally, text: &str, pos: usize, what: String| {
                t.violation(
                    weight(&pattern, text),
                    jobj! {"kind" => "c14", "pattern" => pattern.as_str(), "text" => text, "pos" => pos, "observed" => what.as_str(),
                    "summary" => format!("/{}/ on {:?} (pos {}): {}", pattern, text, pos, what)},
                );
            };
            let (opt_true, opt_false, ample) = match (opt_true, opt_false, ample) {
                (Ok(a), Ok(b), Ok(c)) => (a, b, c),
                (a, b, c) => {
                    viol(&mut t, "", 0, format!("builds without options but case_insensitive(true): {:?}, case_insensitive(false): {:?}, ample limits: {:?}", a.is_ok(), b.is_ok(), c.is_ok()));
                    return;
                }
            };
            let limit_max = engine::compile_with(&pattern, |b| {
                b.backtrack_limit(usize::MAX);
            });
            // the case-insensitive option together with each other option (limits that cannot be
            // reached), alone and all at once, set before and after it: still exactly (?i)P
            let combos: Vec<(&str, Result<fancy_regex::Regex, engine::CompileFail>)> = vec![
                ("case_insensitive(true).delegate_size_limit(50 MiB)", engine::compile_with(&pattern, |b| { b.case_insensitive(true).delegate_size_limit(50 << 20); })),
                ("delegate_dfa_size_limit(50 MiB).case_insensitive(true)", engine::compile_with(&pattern, |b| { b.delegate_dfa_size_limit(50 << 20).case_insensitive(true); })),
                ("case_insensitive(true).backtrack_limit(10^7)", engine::compile_with(&pattern, |b| { b.case_insensitive(true).backtrack_limit(10_000_000); })),
                ("delegate_size_limit(50 MiB).case_insensitive(true).delegate_dfa_size_limit(50 MiB).backtrack_limit(10^7)", engine::compile_with(&pattern, |b| { b.delegate_size_limit(50 << 20).case_insensitive(true).delegate_dfa_size_limit(50 << 20).backtrack_limit(10_000_000); })),
            ];
            for (cname, c) in &combos {
                if let Err(e) = c {
                    viol(&mut t, "", 0, format!("builds with case_insensitive(true) but not with {}: {:?}", cname, e));
                }
            }
            for text in &texts {
                // the other entry points (each has its own code path for the two engines, and some
                // have shortcuts that look at the pattern text): option == inline flag, and a limit
                // that cannot be reached changes nothing
                {
                    t.evaluations += 1;
                    let battery = |r: &fancy_regex::Regex| -> Vec<String> {
                        vec![
                            format!("is_match {:?}", engine::is_match(r, text)),
                            format!("find_iter {:?}", engine::find_iter_log(r, text).items),
                            format!("split {:?}", engine::split_log(r, text).items),
                            format!("replace_all(\"-\") {:?}", engine::replacen_str(r, text, 0, "-")),
                            format!("replacen(1, \"[$0]\") {:?}", engine::replacen_str(r, text, 1, "[$0]")),
                        ]
                    };
                    let e = battery(&with_prefix);
                    let g = battery(&opt_true);
                    for (x, y) in e.iter().zip(g.iter()) {
                        if x != y && !x.contains("Panic") && !y.contains("Panic") && !x.contains("Err(") && !y.contains("Err(") {
                            viol(&mut t, text, 0, format!("case_insensitive(true) gives {} but the pattern (?i){} gives {}", y, pattern, x));
                            break;
                        }
                    }
                    let base = battery(&unset);
                    match &limit_max {
                        Ok(lm) => {
                            let m = battery(lm);
                            for (x, y) in base.iter().zip(m.iter()) {
                                if x != y && !x.contains("Err(") {
                                    viol(&mut t, text, 0, format!("backtrack_limit(usize::MAX) gives {} but no option gives {}", y, x));
                                    break;
                                }
                            }
                        }
                        Err(e) => viol(&mut t, text, 0, format!("backtrack_limit(usize::MAX): the pattern does not build: {:?}", e)),
                    }
                }
                for pos in space::offsets(text) {
                    t.evaluations += 1;
                    let e = engine::captures_at(&with_prefix, text, pos);
                    let g = engine::captures_at(&opt_true, text, pos);
                    if matches!(e, Out::Panic(_) | Out::Err(_)) || matches!(g, Out::Panic(_) | Out::Err(_)) {
                        continue;
                    }
                    if e != g {
                        viol(&mut t, text, pos, format!("case_insensitive(true) gives {} but the pattern (?i){} gives {}", g.short(), pattern, e.short()));
                    }
                    for (cname, c) in &combos {
                        if let Ok(c) = c {
                            let gc = engine::captures_at(c, text, pos);
                            if gc != e && !matches!(gc, Out::Panic(_) | Out::Err(_)) {
                                viol(&mut t, text, pos, format!("{} gives {} but the pattern (?i){} gives {}", cname, gc.short(), pattern, e.short()));
                            }
                        }
                    }
                    let base = engine::captures_at(&unset, text, pos);
                    let f = engine::captures_at(&opt_false, text, pos);
                    if f != base {
                        viol(&mut t, text, pos, format!("case_insensitive(false) gives {} but no option gives {}", f.short(), base.short()));
                    }
                    fancy_regex::verif::reset_stats();
                    let a = engine::captures_at(&ample, text, pos);
                    let needed = fancy_regex::verif::stats().backtracks;
                    if a != base {
                        viol(&mut t, text, pos, format!("ample size/backtrack limits give {} but no option gives {}", a.short(), base.short()));
                    }
                    if let Ok(l1) = &limit1 {
                        let r = engine::captures_at(l1, text, pos);
                        let is_limit_err = matches!(&r, Out::Err(e) if e == "BacktrackLimitExceeded");
                        if needed > 1 && !is_limit_err {
                            viol(&mut t, text, pos, format!("backtrack_limit(1): the search needs {} backtracks, yet the result is {} instead of BacktrackLimitExceeded", needed, r.short()));
                        } else if needed <= 1 && r != base {
                            viol(&mut t, text, pos, format!("backtrack_limit(1): the search needs {} backtracks, yet the result is {} instead of {}", needed, r.short(), base.short()));
                        }
                        if needed > 1 {
                            t.count("limit_exceeded_cases", 1);
                        }
                        if pos == 0 {
                            // is_match honours the limit too (its run is the same search from 0)
                            let im = engine::is_match(l1, text);
                            let ok = if needed > 1 { matches!(&im, Err(e) if e.contains("BacktrackLimitExceeded")) } else { im == Ok(matches!(base, Out::Match(_))) };
                            if !ok && !matches!(&im, Err(e) if e.starts_with("Panic")) {
                                viol(&mut t, text, 0, format!("backtrack_limit(1): the search needs {} backtracks, is_match returns {:?} (captures: {})", needed, im, r.short()));
                            }
                        }
                    }
                    // non-trivial: the flag matters on this case
                    if e != base {
                        t.nontrivial += 1;
                        t.sample(6, || jobj! {"pattern" => pattern.as_str(), "text" => text.as_str(), "pos" => pos, "case_sensitive" => base.short(), "case_insensitive" => e.short(), "vm" => is_vm, "space" => tag});
                    }
                }
            }
        });
        t
    });
    let mut t = Tally::merge_all(tallies);
    let tc = casefold::sweep(casefold::Which::C14);
    t.count("casefold_sweep_programs", tc.programs);
    t.count("casefold_sweep_evaluations", tc.evaluations);
    t.merge(tc);
    finish(
        cx,
        t,
        Finish {
            rule: format!(
                "every pattern of {} (mixed-case atoms, inner (?-i:..) and (?i:..) groups, fancy and plain) x every text over {:?} up to length {} x every offset: the option combined with each other option (ample delegate_size_limit, delegate_dfa_size_limit, backtrack_limit; alone and all at once, set before and after it) is still exactly (?i)P; build(P).case_insensitive(true) == build((?i)P) on all groups, case_insensitive(false) == no option, ample delegate_size_limit / delegate_dfa_size_limit / backtrack_limit == no option, backtrack_limit(usize::MAX) == no option, and the same two equalities for is_match, find_iter, split, replace_all(\"-\") and replacen(1, \"[$0]\") on every text; backtrack_limit(1) yields BacktrackLimitExceeded exactly when the search needs more than one backtrack (count read through hook H1) and the unlimited result otherwise; plus: for each large plain piece of {:?} that fails to build under delegate_size_limit(10 / 1000), every fancy host of {:?} embedding it as a delegated piece must fail to build too (CompileError::InnerError); metamorphic, no reference model; non-trivial = cases on which case-insensitivity changes the result; plus a {}",
                space.describe(), alphabet, max_len, LARGE, HOSTS, casefold::describe(casefold::Which::C14)
            ),
            exhaustive: true,
            bounds: jobj! {"space" => space.describe(), "max_text_len" => max_len, "node_bound" => k},
            assumptions: vec![],
            extra: vec![],
        },
    )
}
