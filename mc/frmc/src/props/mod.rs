pub mod c01;
