pub mod c01;
pub mod c05;
pub mod c07;
pub mod c13;
pub mod c03;
pub mod c04;
pub mod iters;
