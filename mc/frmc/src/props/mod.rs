pub mod c01;
pub mod c05;
