//! C12: template expansion follows the documented $-syntax and escape round-trips.

use crate::common::*;
use crate::engine;
use fancy_regex::{Captures, Expander, Regex};
use frmc_core::expandref::{self, CapModel, Ref};
use frmc_core::jobj;
use frmc_core::par;
use std::collections::HashMap;
use std::panic::{catch_unwind, AssertUnwindSafe};

const ALPHA: &[char] = &['$', '{', '}', '\\', 'g', '<', '>', '0', '1', '9', 'x', '_', 'é', ' '];

/// `@` = the scalar value under test
const SCALAR_FORMS: &[&str] = &["$1@", "$x@x", "${x@}", "\\g<x@>"];

struct CapSet {
    name: &'static str,
    pattern: &'static str,
    text: &'static str,
    /// expected group texts (harness knowledge, not read from the engine)
    groups: Vec<Option<&'static str>>,
    names: Vec<(&'static str, usize)>,
}

fn cap_sets() -> Vec<CapSet> {
    vec![
        CapSet { name: "named", pattern: "(?<x>a)(?<x1>b)(?<_>c)", text: "abc", groups: vec![Some("abc"), Some("a"), Some("b"), Some("c")], names: vec![("x", 1), ("x1", 2), ("_", 3)] },
        CapSet {
            name: "numbered",
            pattern: "(a)(b)(c)(d)(e)(f)(g)(h)(i)(j)(k)",
            text: "abcdefghijk",
            groups: vec![Some("abcdefghijk"), Some("a"), Some("b"), Some("c"), Some("d"), Some("e"), Some("f"), Some("g"), Some("h"), Some("i"), Some("j"), Some("k")],
            names: vec![],
        },
        CapSet { name: "unmatched", pattern: "(?<x>a)|(?<g>b)(?<_9>z)?", text: "b", groups: vec![Some("b"), None, Some("b"), None], names: vec![("x", 1), ("g", 2), ("_9", 3)] },
        CapSet { name: "digit-led names", pattern: "(?<1x>a)(?<9_>b)(?<x1>c)?", text: "ab", groups: vec![Some("ab"), Some("a"), Some("b"), None], names: vec![("1x", 1), ("9_", 2), ("x1", 3)] },
        CapSet { name: "multibyte", pattern: "(?<é>é+)( )?(?=(x))", text: "ééx", groups: vec![Some("éé"), Some("éé"), None, Some("x")], names: vec![("é", 1)] },
    ]
}

fn template(mut idx: usize, len: usize) -> String {
    let mut s = String::new();
    for _ in 0..len {
        s.push(ALPHA[idx % ALPHA.len()]);
        idx /= ALPHA.len();
    }
    s
}

/// a writer that accepts at most two bytes per call
struct Chunky(Vec<u8>);
impl std::io::Write for Chunky {
    fn write(&mut self, buf: &[u8]) -> std::io::Result<usize> {
        let n = buf.len().min(2);
        self.0.extend_from_slice(&buf[..n]);
        Ok(n)
    }
    fn flush(&mut self) -> std::io::Result<()> {
        Ok(())
    }
}

pub fn run_c12(cx: &Ctx) -> i32 {
    let max_len = if cx.quick() { 5 } else { 7 };
    engine::quiet_panics();
    let sets = cap_sets();
    // build the real captures once per set, and cross-check the harness's expectations
    let mut prepared = Vec::new();
    let mut setup_problem = None;
    for cs in &sets {
        let re = Regex::new(cs.pattern).expect("capture-set pattern compiles");
        let model = CapModel {
            groups: cs.groups.iter().map(|g| g.map(|s| s.to_string())).collect(),
            names: cs.names.iter().map(|(n, i)| (n.to_string(), *i)).collect::<HashMap<_, _>>(),
        };
        {
            let caps = re.captures(cs.text).expect("search ok").expect("capture-set text matches");
            let got: Vec<Option<String>> = (0..caps.len()).map(|i| caps.get(i).map(|m| m.as_str().to_string())).collect();
            if got != model.groups {
                setup_problem = Some(format!("capture set {}: engine groups {:?}, harness expects {:?} (a C02/C16 matter)", cs.name, got, model.groups));
            }
        }
        prepared.push((cs, re, model));
    }
    if let Some(p) = setup_problem {
        eprintln!("machinery: {}", p);
        return 2;
    }
    let mut lens = Vec::new();
    let mut total = 0usize;
    for l in 0..=max_len {
        let n = ALPHA.len().pow(l as u32);
        lens.push((l, total, n));
        total += n;
    }
    // long templates: an ASCII stretch of every length up to 130 followed by a multi-byte
    // character and a reference (buffer boundaries inside the expander)
    let mut long_templates: Vec<String> = Vec::new();
    for n in 0..=130usize {
        for ch in ["é", "€", "😀"] {
            for tail in ["", "$1", "$$", "\\1"] {
                long_templates.push(format!("{}{}{}", "a".repeat(n), ch, tail));
                long_templates.push(format!("$1{}{}{}", "b".repeat(n), ch, tail));
            }
        }
    }
    // references by numbers at the edges of the integer widths an implementation might parse them
    // with: not a group of any capture set, so each is replaced by the empty string
    for num in ["12", "99", "255", "256", "257", "65535", "65536", "4294967295", "4294967296", "4294967297", "9000000000", "9223372036854775807", "9223372036854775808", "18446744073709551615"] {
        for form in ["\\N", "$N", "${N}", "\\g<N>", "x\\Nx", "x${N}x$1", "$Nx"] {
            long_templates.push(form.replace('N', num));
        }
    }
    // zero-padded references: a run of k zeros before a small group number, for every k up to 45
    // (a digit scanner that stops after the widest possible number of digits, or parses a prefix)
    for k in 0..=45usize {
        for d in ["1", "3", "11", "12"] {
            let num = format!("{}{}", "0".repeat(k), d);
            for form in ["\\N", "$N", "${N}", "\\g<N>", "\\Nx"] {
                long_templates.push(form.replace('N', &num));
            }
        }
    }
    let n_long = long_templates.len();
    lens.push((usize::MAX, total, n_long));
    total += n_long;
    // every Unicode scalar value directly after / inside a reference (which characters continue an
    // identifier is a classification over all of Unicode, not over the template alphabet)
    let n_scalar = 0x110000 * SCALAR_FORMS.len();
    lens.push((usize::MAX - 1, total, n_scalar));
    total += n_scalar;
    let tallies = par::run_workers(4096, |_w, claimer| {
        engine::quiet_panics();
        let mut t = Tally::new();
        let caps: Vec<(&CapSet, &Regex, Captures, &CapModel)> = prepared.iter().map(|(cs, re, m)| (*cs, re, re.captures(cs.text).unwrap().unwrap(), m)).collect();
        let expanders = [("default", Expander::default()), ("python", Expander::python())];
        for &(l, base, n) in &lens {
            for i in 0..n {
                let idx = base + i;
                if !claimer.is_mine(idx) {
                    continue;
                }
                let tpl = if l == usize::MAX {
                    long_templates[i].clone()
                } else if l == usize::MAX - 1 {
                    match char::from_u32((i / SCALAR_FORMS.len()) as u32) {
                        Some(c) => SCALAR_FORMS[i % SCALAR_FORMS.len()].replace('@', &c.to_string()),
                        None => continue, // surrogate code points are not scalar values
                    }
                } else {
                    template(i, l)
                };
                t.programs += 1;
                let mut viol = |t: &mut Tally, what: String| {
                    t.violation(
                        tpl.len(),
                        jobj! {"kind" => "c12", "pattern" => tpl.as_str(), "text" => "", "pos" => 0, "observed" => what.as_str(),
                        "summary" => format!("template {:?}: {}", tpl, what)},
                    );
                };
                let has_ref_default = tpl.contains('$');
                for (cs, re, c, model) in &caps {
                    for (ename, ex) in &expanders {
                        t.evaluations += 1;
                        let expected = if *ename == "default" { expandref::expand_default(&tpl, model) } else { expandref::expand_python(&tpl, model) };
                        let r = catch_unwind(AssertUnwindSafe(|| {
                            let a = ex.expansion(&tpl, c);
                            let mut b = String::from("pre|");
                            ex.append_expansion(&mut b, &tpl, c);
                            let mut w: Vec<u8> = Vec::new();
                            ex.write_expansion(&mut w, &tpl, c).expect("write");
                            let mut v: Vec<u8> = Vec::new();
                            ex.write_expansion_vec(&mut v, &tpl, c).expect("write vec");
                            // a destination that takes at most two bytes per write call (a short write
                            // is not an error; the whole expansion must still arrive) ...
                            let mut ch = Chunky(Vec::new());
                            ex.write_expansion(&mut ch, &tpl, c).expect("write to a chunking writer");
                            let w = if ch.0 == w { w } else { ch.0 };
                            // ... and one that is full after two bytes: an error, not a silent Ok
                            if w.len() > 2 {
                                let mut small = [0u8; 2];
                                let mut dst: &mut [u8] = &mut small[..];
                                if ex.write_expansion(&mut dst, &tpl, c).is_ok() {
                                    return (String::from("<write_expansion into a full 2-byte destination returned Ok>"), String::new(), String::new(), String::new(), String::new());
                                }
                            }
                            let mut d = String::new();
                            if *ename == "default" {
                                c.expand(&tpl, &mut d);
                            } else {
                                d = a.clone();
                            }
                            (a, b, String::from_utf8(w).unwrap_or_else(|_| "<invalid utf8>".into()), String::from_utf8(v).unwrap_or_else(|_| "<invalid utf8>".into()), d)
                        }));
                        match r {
                            Err(p) => viol(&mut t, format!("{} expander panics on capture set {}: {}", ename, cs.name, engine::panic_msg(p))),
                            Ok((a, b, w, v, d)) => {
                                if a != expected {
                                    viol(&mut t, format!("{} expander, capture set {}: expansion = {:?}, documented interpretation {:?}", ename, cs.name, a, expected));
                                } else if b != format!("pre|{}", a) || w != a || v != a || d != a {
                                    viol(&mut t, format!("{} expander, capture set {}: entry points disagree: expansion {:?} append {:?} write {:?} write_vec {:?} Captures::expand {:?}", ename, cs.name, a, b, w, v, d));
                                } else if a != tpl {
                                    t.nontrivial += 1;
                                    t.sample(6, || jobj! {"template" => tpl.as_str(), "expander" => *ename, "capture_set" => cs.name, "expansion" => a.as_str()});
                                }
                            }
                        }
                        // check(): accepts only if every reference names an existing group (one direction)
                        if *ename == "default" && has_ref_default {
                            if let Ok(Ok(())) = catch_unwind(AssertUnwindSafe(|| ex.check(&tpl, re))) {
                                for r in expandref::references_default(&tpl) {
                                    let ok = match &r {
                                        Ref::Name(n) => model.names.contains_key(n),
                                        Ref::Index(i) => *i < model.groups.len(),
                                    };
                                    if !ok {
                                        viol(&mut t, format!("check accepts the template for capture set {} although a reference names no existing group", cs.name));
                                    }
                                }
                                t.count("check_accepted", 1);
                            } else {
                                t.count("check_rejected", 1);
                            }
                        }
                    }
                }
                // expand(escape(s)) == s for both expanders (any captures)
                for (ename, ex) in &expanders {
                    t.evaluations += 1;
                    let r = catch_unwind(AssertUnwindSafe(|| {
                        let e = ex.escape(&tpl);
                        let borrowed = matches!(e, std::borrow::Cow::Borrowed(_));
                        (ex.expansion(&e, &caps[0].2), borrowed)
                    }));
                    match r {
                        Ok((back, borrowed)) => {
                            if back != tpl {
                                viol(&mut t, format!("{} expander: expansion(escape(s)) = {:?}", ename, back));
                            }
                            let sub = if *ename == "default" { '$' } else { '\\' };
                            if borrowed == tpl.contains(sub) {
                                viol(&mut t, format!("{} expander: escape borrows = {} for a string that contains the substitution character = {}", ename, borrowed, tpl.contains(sub)));
                            }
                        }
                        Err(p) => viol(&mut t, format!("{} expander: escape/expansion panics: {}", ename, engine::panic_msg(p))),
                    }
                }
            }
        }
        t
    });
    let t = Tally::merge_all(tallies);
    finish(
        cx,
        t,
        Finish {
            rule: format!(
                "all {} templates: every template of length <= {} over {:?} plus every Unicode scalar value (all 1 112 064) in the forms $1@ $x@x ${{x@}} \\g<x@> (which characters continue an identifier) plus {} long templates (an ASCII stretch of every length 0..130, a multi-byte character, a reference; references by numbers at the edges of the 8/16/32/64-bit widths and by small numbers behind 0..45 zeros in every reference syntax) x 5 capture sets (named, numbered with 11 groups, unmatched groups, digit-led names, multi-byte) x both expanders (default and Python-style) x 5 entry points (expansion, append_expansion, write_expansion - into a Vec, into a writer that takes two bytes per call, and into a full destination, which must be an error -, write_expansion_vec, Captures::expand) which must all agree; oracle: reference expander written from the documentation (frmc-core/src/expandref.rs); expansion(escape(s)) == s for every string of the same space; check accepts only templates all of whose references name an existing group; non-trivial = expansions that differ from the template",
                total, max_len, ALPHA, n_long
            ),
            exhaustive: true,
            bounds: jobj! {"max_template_len" => max_len, "alphabet_size" => ALPHA.len(), "templates" => total},
            assumptions: vec!["a Python-style numeric reference too large for usize does not occur in templates of this length".into()],
            extra: vec![],
        },
    )
}
