//! C07: searches terminate; limit errors only when the limit is really exceeded.

use crate::common::*;
use crate::counts;
use crate::engine::{self, Out};
use crate::props::c05::unr_space;
use crate::refsweep::weight;
use frmc_core::ast;
use frmc_core::ir;
use frmc_core::jobj;
use frmc_core::par;
use frmc_core::refsem;
use frmc_core::space;
use std::collections::BTreeMap;

const FUEL: u64 = 100_000;
const STACK_CAP: usize = 10_000;
const TINY: u64 = 10_000;

pub fn run_c07(cx: &Ctx) -> i32 {
    let k = if cx.quick() { 3 } else { 5 };
    let space = unr_space(k);
    let alphabet = vec!['a', 'b', 'é', '\n'];
    let max_len = 3;
    let texts = space::texts(&alphabet, max_len);
    let fixed_limits: Vec<usize> = if cx.quick() { vec![0, 1, 2, 3, 5, 10, 100, 1_000_000] } else { vec![0, 1, 2, 3, 5, 10, 100, 1_000_000] };
    let tallies = par::run_workers(16, |_w, claimer| {
        engine::quiet_panics();
        engine::set_sweep_horizons(FUEL, STACK_CAP);
        let mut t = Tally::new();
        space.for_each(claimer, &mut |node, tag| {
            let facts = ast::facts(node);
            if !facts.refs_valid {
                return;
            }
            let pattern = ast::to_pattern(node);
            let re_inf = match engine::compile_with(&pattern, |b| {
                b.backtrack_limit(usize::MAX);
            }) {
                Ok(r) => r,
                Err(_) => {
                    t.count("compile_errors", 1);
                    return;
                }
            };
            let re_default = match engine::compile(&pattern) {
                Ok(r) => r,
                Err(_) => return,
            };
            let (is_vm, _) = engine::engine_class(&re_inf);
            t.programs += 1;
            if !is_vm {
                // whole-pattern hand-off: no backtracking VM involved; only check that limits change nothing
                t.count("programs_wrapped", 1);
            }
            let prog = ir::from_ast(node).ok();
            let prog_len = engine::program_text(&re_inf).lines().count() as u64;
            let mut by_limit: BTreeMap<usize, fancy_regex::Regex> = BTreeMap::new();
            let mut viol = |t: &mut Tally, text: &str, pos: usize, what: String| {
                t.violation(
                    weight(&pattern, text),
                    jobj! {"kind" => "c07", "pattern" => pattern.as_str(), "text" => text, "pos" => pos, "observed" => what.as_str(),
                    "summary" => format!("/{}/ on {:?} (pos {}): {}", pattern, text, pos, what)},
                );
            };
            for text in &texts {
                let chars = text.chars().count() as u64;
                for pos in space::offsets(text) {
                    t.evaluations += 1;
                    fancy_regex::verif::reset_stats();
                    let out_inf = engine::captures_at(&re_inf, text, pos);
                    let st = fancy_regex::verif::stats();
                    let b = st.backtracks as usize;
                    // (c) default limits, tiny reference exploration => no limit error
                    let ref_steps = prog.as_ref().map(|p| refsem::search(p, text, pos, false).1.steps);
                    let out_def = engine::captures_at(&re_default, text, pos);
                    if let (Some(steps), Out::Err(e)) = (ref_steps, &out_def) {
                        if steps <= TINY {
                            viol(&mut t, text, pos, format!("default limits: {} although the reference exploration needs only {} steps (horizons: fuel {}, branch stack {})", e, steps, FUEL, STACK_CAP));
                            continue;
                        }
                    }
                    if let Out::Err(e) = &out_inf {
                        if ref_steps.map_or(true, |s| s > TINY) {
                            t.count("skipped_reference_not_tiny", 1);
                        } else {
                            viol(&mut t, text, pos, format!("unlimited run: {} (reference exploration {:?} steps)", e, ref_steps));
                        }
                        continue;
                    }
                    if matches!(out_inf, Out::Panic(_)) {
                        continue; // C05
                    }
                    // (d) boundedness: instructions and stack within a product of limit, pattern and text
                    let bound = (b as u64 + 2) * (chars + 2) * (prog_len + 2) * 4;
                    t.max("max_insns_per_run", st.insns);
                    t.max("max_permille_of_instruction_bound", st.insns * 1000 / bound.max(1));
                    t.max("max_backtracks_per_run", st.backtracks);
                    t.max("max_peak_stack", st.peak_stack as u64);
                    if st.insns > bound {
                        viol(&mut t, text, pos, format!("{} instructions for {} backtracks, {} chars, program of {} instructions (bound {})", st.insns, b, chars, prog_len, bound));
                    }
                    if st.peak_stack as u64 > bound {
                        viol(&mut t, text, pos, format!("branch stack depth {} exceeds the bound {}", st.peak_stack, bound));
                    }
                    if b >= 1 && is_vm {
                        t.nontrivial += 1;
                        t.sample(6, || jobj! {"pattern" => pattern.as_str(), "text" => text.as_str(), "pos" => pos, "backtracks" => b, "insns" => st.insns, "result" => out_inf.short(), "space" => tag});
                    }
                    let mut limits = fixed_limits.clone();
                    limits.push(b);
                    limits.push(b + 1);
                    if b > 0 {
                        limits.push(b - 1);
                    }
                    limits.sort();
                    limits.dedup();
                    for l in limits {
                        let re_l = match by_limit.get(&l) {
                            Some(r) => r,
                            None => {
                                let r = match engine::compile_with(&pattern, |bb| {
                                    bb.backtrack_limit(l);
                                }) {
                                    Ok(r) => r,
                                    Err(_) => continue,
                                };
                                by_limit.entry(l).or_insert(r)
                            }
                        };
                        t.evaluations += 1;
                        fancy_regex::verif::reset_stats();
                        let out_l = engine::captures_at(re_l, text, pos);
                        let st_l = fancy_regex::verif::stats();
                        let limit_err = matches!(&out_l, Out::Err(e) if e == "BacktrackLimitExceeded");
                        if out_l != out_inf && !limit_err {
                            viol(&mut t, text, pos, format!("limit {}: {} but the unlimited run gives {}", l, out_l.short(), out_inf.short()));
                        } else if l >= b && out_l != out_inf {
                            viol(&mut t, text, pos, format!("limit {} >= {} backtracks needed, yet {} (unlimited: {})", l, b, out_l.short(), out_inf.short()));
                        }
                        if pos == 0 {
                            // is_match is the same search: limit error or the unlimited answer
                            let im = engine::is_match(re_l, text);
                            let want = matches!(out_inf, Out::Match(_));
                            let ok = match &im {
                                Ok(x) => *x == want && (l >= b || out_l == out_inf || true),
                                Err(e) => e.contains("BacktrackLimitExceeded") && l < b,
                            };
                            let consistent = match (&im, &out_l) {
                                (Ok(_), Out::Err(_)) | (Err(_), Out::Match(_)) | (Err(_), Out::NoMatch) => false,
                                _ => true,
                            };
                            if (!ok || !consistent) && !matches!(&im, Err(e) if e.starts_with("Panic")) {
                                viol(&mut t, text, 0, format!("limit {} ({} backtracks needed): is_match returns {:?} but captures returns {} (unlimited: {})", l, b, im, out_l.short(), out_inf.short()));
                            }
                        }
                        let bound_l = (l.min(b) as u64 + 3) * (chars + 2) * (prog_len + 2) * 4;
                        if st_l.insns > bound_l {
                            viol(&mut t, text, pos, format!("limit {}: {} instructions executed (bound {})", l, st_l.insns, bound_l));
                        }
                    }
                }
            }
        });
        t
    });
    let mut t = Tally::merge_all(tallies);
    // Tall pass: every context x one-node fillers over long regular texts, default limits only:
    // a search whose reference exploration is tiny must not end in a limit error (a construct that
    // should be atomic but is re-entered makes such searches exponential).
    let tall_space = crate::spaces::Space::new().ctxfill(1, 1, &|_| true);
    let tall_texts = crate::refsweep::tall_texts(if cx.quick() { 32 } else { 64 });
    let tall = par::run_workers(8, |_w, claimer| {
        engine::quiet_panics();
        engine::set_sweep_horizons(FUEL, STACK_CAP);
        let mut t = Tally::new();
        tall_space.for_each(claimer, &mut |node, tag| {
            let facts = ast::facts(node);
            if !facts.refs_valid {
                return;
            }
            let pattern = ast::to_pattern(node);
            let re = match engine::compile(&pattern) {
                Ok(r) => r,
                Err(_) => return,
            };
            let prog = match ir::from_ast(node) {
                Ok(p) => p,
                Err(_) => return,
            };
            t.programs += 1;
            for text in &tall_texts {
                t.evaluations += 1;
                let (_, info) = refsem::search(&prog, text, 0, false);
                if info.steps > TINY {
                    continue;
                }
                let out = engine::captures_at(&re, text, 0);
                if let Out::Err(e) = &out {
                    t.violation(
                        weight(&pattern, text),
                        jobj! {"kind" => "c07", "pattern" => pattern.as_str(), "text" => text.as_str(), "pos" => 0, "observed" => e.as_str(),
                        "summary" => format!("/{}/ on {:?}: default limits: {} although the reference exploration needs only {} steps (horizons: fuel {}, branch stack {})", pattern, text, e, info.steps, FUEL, STACK_CAP)},
                    );
                } else {
                    t.count("tall_cases_reference_tiny", 1);
                    let _ = tag;
                }
            }
        });
        t
    });
    t.merge(Tally::merge_all(tall));
    let (dense, top) = if cx.quick() { (600, 5_000) } else { (2000, 5_000) };
    let t4 = counts::sweep(counts::Which::C07, dense, top);
    t.count("large_count_sweep_programs", t4.programs);
    t.count("large_count_sweep_evaluations", t4.evaluations);
    t.merge(t4);
    finish(
        cx,
        t,
        Finish {
            rule: format!(
                "every pattern of {} (F1 and conditionals included) x every text over {:?} up to length {} x every offset x backtrack limits {:?} and B-1, B, B+1 where B is the number of backtracks of the unlimited run read through hook H1; oracle: (a) result(L) is BacktrackLimitExceeded or equal to the unlimited result; (b) L >= B implies the unlimited result; (c) with default limits and a reference exploration of at most {} steps no StackOverflow / BacktrackLimitExceeded (hook horizons: fuel {}, branch stack {} - a run that hits them is reported, not waited for); (d) instructions and branch-stack depth <= 4*(B+2)*(chars+2)*(|prog|+2); non-trivial = VM-compiled cases with B >= 1; plus a tall pass (every context x one-node fillers over long regular texts up to 32 / 64 characters, default limits) for oracle (c); plus a {}",
                space.describe(), alphabet, max_len, fixed_limits, TINY, FUEL, STACK_CAP, counts::describe(counts::Which::C07, dense, top)
            ),
            exhaustive: true,
            bounds: jobj! {"space" => space.describe(), "max_text_len" => max_len, "node_bound" => k},
            assumptions: vec!["hook H1 counters are exact (incremented next to the crate's own backtrack counter)".into()],
            extra: vec![],
        },
    )
}
