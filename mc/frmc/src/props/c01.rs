//! C01 (span), C02 (groups), C15 (conditionals): reference sweeps.

use crate::common::*;
use crate::counts;
use crate::wide;
use crate::refsweep::{self, RefCfg};
use crate::spaces::{self, Space};
use frmc_core::ast::{Facts, Node};
use frmc_core::jobj;
use frmc_core::space;

/// a reduced operator set that reaches node bound 6 (thorough tier)
fn reduced_grammar() -> space::Grammar {
    use frmc_core::ast::{lit, LookKind, Mode, A};
    space::Grammar {
        atoms: vec![lit("a"), lit("b"), Node::Dot, Node::Assert(A::WordB), Node::Assert(A::End), Node::Backref(1)],
        unary: vec![
            space::Unary::Group,
            space::Unary::Atomic,
            space::Unary::Look(LookKind::Ahead),
            space::Unary::Look(LookKind::AheadNeg),
            space::Unary::Look(LookKind::Behind),
            space::Unary::Rep(0, None, Mode::Greedy),
            space::Unary::Rep(1, None, Mode::Lazy),
            space::Unary::Rep(0, Some(1), Mode::Greedy),
            space::Unary::Rep(2, Some(2), Mode::Greedy),
        ],
        concat: true,
        alt: true,
        cond_group: false,
        cond_expr: false,
        empty_alt: false,
    }
}

fn c01_space(cx: &Ctx) -> (Space, Vec<char>, usize) {
    if cx.quick() {
        (
            Space::new()
                .exh("core", space::fancy_grammar(space::core_atoms()), 4)
                .exh("extended", space::fancy_grammar(space::extended_atoms()), 3)
                .ctxfill(3, 1, &|_| true),
            spaces::sigma4(),
            3,
        )
    } else {
        (
            Space::new()
                .exh("core", space::fancy_grammar(space::core_atoms()), 5)
                .exh("extended", space::fancy_grammar(space::extended_atoms()), 4)
                .exh("reduced", reduced_grammar(), 6)
                .ctxfill(3, 2, &|_| true),
            spaces::sigma6(),
            3,
        )
    }
}

/// second sweep: a smaller pattern space over longer texts (two letters), for defects that need
/// more characters than the main sweep's texts have (several loop iterations, longer backreferences)
fn long_text_space(cx: &Ctx) -> (Space, Vec<char>, usize) {
    let mut g = space::fancy_grammar(vec![
        frmc_core::ast::lit("a"),
        frmc_core::ast::lit("b"),
        Node::Dot,
        Node::Assert(frmc_core::ast::A::End),
        Node::Assert(frmc_core::ast::A::WordB),
        Node::Backref(1),
    ]);
    g.unary.push(space::Unary::Rep(3, Some(3), frmc_core::ast::Mode::Greedy));
    g.unary.push(space::Unary::Rep(0, Some(2), frmc_core::ast::Mode::Lazy));
    g.unary.push(space::Unary::Rep(3, None, frmc_core::ast::Mode::Greedy));
    if cx.quick() {
        (Space::new().exh("long-texts", g, 3).ctxfill(2, 1, &|_| true), vec!['a', 'b'], 5)
    } else {
        (Space::new().exh("long-texts", g, 4).ctxfill(2, 1, &|_| true), vec!['a', 'b'], 6)
    }
}

/// third sweep ("tall"): every context x small fillers over long regular texts (many loop
/// iterations, long undo logs), searched from offset 0
fn tall(cx: &Ctx, check_span: bool, check_groups: bool) -> Tally {
    let space = Space::new().ctxfill(if cx.quick() { 1 } else { 2 }, 1, &|_| true);
    let cfg = RefCfg {
        check_span,
        check_groups,
        check_is_match: false,
        need_scoped: true,
        filter: None,
        shadow: false,
        alphabet: vec![],
        max_len: 0,
        text_list: Some(refsweep::tall_texts(if cx.quick() { 32 } else { 64 })),
        offset0_only: true, letter_names: false, casei: false,
    };
    refsweep::run(cx, &space, &cfg)
}

pub fn run_c01(cx: &Ctx) -> i32 {
    let (space, alphabet, max_len) = c01_space(cx);
    let cfg = RefCfg { check_span: true, check_groups: false, check_is_match: true, need_scoped: true, filter: None, shadow: false, alphabet: alphabet.clone(), max_len, text_list: None, offset0_only: false, letter_names: false, casei: false };
    let mut t = refsweep::run(cx, &space, &cfg);
    let (lspace, lalpha, llen) = long_text_space(cx);
    let lcfg = RefCfg { alphabet: lalpha, max_len: llen, ..RefCfg { check_span: true, check_groups: false, check_is_match: true, need_scoped: true, filter: None, shadow: false, alphabet: vec![], max_len: 0 , text_list: None, offset0_only: false, letter_names: false, casei: false} };
    let t2 = refsweep::run(cx, &lspace, &lcfg);
    t.count("long_text_sweep_programs", t2.programs);
    t.count("long_text_sweep_evaluations", t2.evaluations);
    t.merge(t2);
    let t3 = tall(cx, true, false);
    t.count("tall_sweep_programs", t3.programs);
    t.count("tall_sweep_evaluations", t3.evaluations);
    t.merge(t3);
    // fifth sweep: case-insensitive mode. The engine runs (?i)P, the reference runs P with every
    // letter spelled as the class of both cases, on texts over [a, A, b]
    let cspace = Space::new().exh("core", space::fancy_grammar(space::core_atoms()), if cx.quick() { 3 } else { 4 }).ctxfill(2, 1, &|_| true);
    let ccfg = RefCfg { casei: true, alphabet: vec!['a', 'A', 'b'], max_len: 3, ..RefCfg { check_span: true, check_groups: false, check_is_match: true, need_scoped: true, filter: None, shadow: false, alphabet: vec![], max_len: 0, text_list: None, offset0_only: false, letter_names: false, casei: false } };
    let t5 = refsweep::run(cx, &cspace, &ccfg);
    t.count("case_insensitive_sweep_programs", t5.programs);
    t.count("case_insensitive_sweep_evaluations", t5.evaluations);
    t.merge(t5);
    let (dense, top) = if cx.quick() { (1100, 70_000) } else { (4200, 300_000) };
    let t4 = counts::sweep(counts::Which::C01, dense, top);
    t.count("large_count_sweep_programs", t4.programs);
    t.count("large_count_sweep_evaluations", t4.evaluations);
    t.merge(t4);
    finish(
        cx,
        t,
        Finish {
            rule: format!(
                "every pattern of {} (scoped references) x every text over {:?} up to length {} x every char-boundary start offset, plus a second sweep of a smaller space (node bound 3 quick / 4 thorough, with {{3}}, {{0,2}}?, {{3,}} repeats, and the contexts) over all texts over [a,b] up to length 5 quick / 6 thorough, and a third 'tall' sweep of every context x one-node fillers over long regular texts (a^n, a^n b, b a^n, (ab)^n, a^n e-acute for n up to 32 quick / 64 thorough) from offset 0; captures_from_pos (and is_match at offset 0) on the real crate versus the reference matcher; non-trivial = the pattern is compiled to a VM program and the reference finds a match or has to try more than one start position; cases in which the reference takes an empty optional iteration of an unbounded repeat (class F1) are outside its domain and skipped (counted); plus a case-insensitive sweep: (?i)P on the engine against P with every letter spelled as the class of both cases on the reference, EXH(core, 3 quick / 4 thorough) + all contexts x fillers(2) x texts over [a,A,b] up to length 3; plus a {}",
                space.describe(), alphabet, max_len, counts::describe(counts::Which::C01, dense, top)
            ),
            exhaustive: true,
            bounds: jobj! {"space" => space.describe(), "alphabet" => alphabet.iter().map(|c| c.to_string()).collect::<Vec<_>>(), "max_text_len" => max_len},
            assumptions: vec![
                "oracle: harness reference matcher (frmc-core/src/refsem.rs), continuation-passing ordered backtracking with atomic look-arounds".into(),
                "\\w / \\b use char::is_alphanumeric || '_' (equal to the regex crate's classes on the harness alphabet)".into(),
                "rustc, regex-automata (delegate behaviour) trusted".into(),
            ],
            extra: vec![],
        },
    )
}

pub fn run_c02(cx: &Ctx) -> i32 {
    let (space, alphabet, max_len) = c01_space(cx);
    fn has_group(_n: &Node, f: &Facts) -> bool {
        f.n_groups >= 1
    }
    let cfg = RefCfg { check_span: false, check_groups: true, check_is_match: false, need_scoped: true, filter: Some(has_group), shadow: false, alphabet: alphabet.clone(), max_len, text_list: None, offset0_only: false, letter_names: false, casei: false };
    let mut t = refsweep::run(cx, &space, &cfg);
    let (lspace, lalpha, llen) = long_text_space(cx);
    let lcfg = RefCfg { check_span: false, check_groups: true, check_is_match: false, need_scoped: true, filter: Some(has_group), shadow: false, alphabet: lalpha, max_len: llen , text_list: None, offset0_only: false, letter_names: false, casei: false};
    let t2 = refsweep::run(cx, &lspace, &lcfg);
    t.count("long_text_sweep_programs", t2.programs);
    t.count("long_text_sweep_evaluations", t2.evaluations);
    t.merge(t2);
    let t3 = tall(cx, false, true);
    t.count("tall_sweep_programs", t3.programs);
    t.count("tall_sweep_evaluations", t3.evaluations);
    t.merge(t3);
    let wsp = wide::wide_space(cx.quick());
    let t4 = wide::sweep(&wsp, wide::Mode::Groups, 3);
    t.count("wide_sweep_programs", t4.programs);
    t.count("wide_sweep_evaluations", t4.evaluations);
    t.merge(t4);
    finish(
        cx,
        t,
        Finish {
            rule: format!(
                "every pattern with at least one capture group of {} (scoped references) x every text over {:?} up to length {} x every offset (plus the long-text sweep of C01); whenever engine and reference both match with the same overall span, every group i>=1 and the number of groups are compared; span divergences are left to C01; non-trivial as in C01; plus the tall sweep of C01 with groups compared, and a {}",
                space.describe(), alphabet, max_len, wide::describe(&wsp, 3)
            ),
            exhaustive: true,
            bounds: jobj! {"space" => space.describe(), "max_text_len" => max_len},
            assumptions: vec!["oracle: harness reference matcher; groups are committed when they close, look-around captures retained, negative look-around captures discarded".into()],
            extra: vec![],
        },
    )
}

pub fn run_c15(cx: &Ctx) -> i32 {
    let k = if cx.quick() { 5 } else { 6 };
    let mut atoms = vec![
        frmc_core::ast::lit("a"),
        frmc_core::ast::lit("b"),
        Node::Dot,
        Node::Assert(frmc_core::ast::A::End),
        Node::Backref(1),
        Node::CondExists(1),
    ];
    atoms.push(Node::Assert(frmc_core::ast::A::Start));
    if !cx.quick() {
        atoms.push(Node::Assert(frmc_core::ast::A::WordB));
    }
    fn has_cond(_n: &Node, f: &Facts) -> bool {
        f.has_cond
    }
    let space = Space::new().exh("cond", space::cond_grammar(atoms), k).ctxfill(3, 1, &|c| c.name.contains("(?("));
    let alphabet = if cx.quick() { vec!['a', 'b', '\n'] } else { vec!['a', 'b', 'c', '\n'] };
    let max_len = 3;
    let cfg = RefCfg { check_span: true, check_groups: true, check_is_match: false, need_scoped: true, filter: Some(has_cond), shadow: false, alphabet: alphabet.clone(), max_len, text_list: None, offset0_only: false, letter_names: false, casei: false };
    let mut t = refsweep::run(cx, &space, &cfg);
    // the same space with the groups named a, b, ...: an expression condition such as (?(a)..) must
    // stay an expression even when a group of that name exists
    let cfg2 = RefCfg { letter_names: true, casei: false, ..RefCfg { check_span: true, check_groups: true, check_is_match: false, need_scoped: true, filter: Some(has_cond), shadow: false, alphabet: alphabet.clone(), max_len, text_list: None, offset0_only: false, letter_names: false, casei: false } };
    let t2 = refsweep::run(cx, &space, &cfg2);
    t.count("letter_named_sweep_programs", t2.programs);
    t.count("letter_named_sweep_evaluations", t2.evaluations);
    t.merge(t2);
    finish(
        cx,
        t,
        Finish {
            rule: format!(
                "every pattern containing a conditional of {} x every text over {:?} up to length {} x every offset; span and all groups versus the reference matcher (group condition: yes iff the group is set; expression condition: first result of the condition, then yes from its end without ever falling back to no, else no from the original position); the whole sweep is run twice: groups numbered, and groups named a, b, ... (?<a>..) with \\k<a> / (?(<a>)..) references, so that group names collide with the literals used in expression conditions",
                space.describe(), alphabet, max_len
            ),
            exhaustive: true,
            bounds: jobj! {"space" => space.describe(), "max_text_len" => max_len},
            assumptions: vec!["oracle: harness reference matcher".into()],
            extra: vec![],
        },
    )
}
