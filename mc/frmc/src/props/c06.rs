//! C06: compiling any string terminates with Ok or Err, never a panic or blow-up.
//! E1': all token sequences up to a length bound over a vocabulary of syntax fragments, plus
//! fixed depth/size probes and single-token mutations of valid patterns; sub-process isolated.

use crate::alloc;
use crate::common::*;
use crate::engine;
use frmc_core::ast;
use frmc_core::jobj;
use frmc_core::json::{self, J};
use frmc_core::space;
use std::io::{BufRead, Write};
use std::panic::{catch_unwind, AssertUnwindSafe};
use std::process::{Command, Stdio};
use std::time::Instant;

pub const VOCAB: &[&str] = &[
    // literals
    "a", "é", "😀", " ", "\n", "\u{a0}", "\u{2028}", "-", ",", "0", "1", "9", "}", "]", "<", ">", "'", "=", "!", ":", "#", "P", "k", "x", "i",
    // operators
    "(", ")", "[", "[^", "|", "*", "+", "?", "{", "{0}", "{1}", "{2}", "{0,0}", "{1,2}", "{2,}", "{,2}", ".", "^", "$", "\\",
    // group openers
    "(?:", "(?=", "(?!", "(?<=", "(?<!", "(?>", "(?<n>", "(?P<n>", "(?P=n)", "(?P>n)", "(?(", "(?(1)", "(?(<n>)", "(?i)", "(?x)", "(?-i:", "(?#", "(?",
    // escapes
    "\\1", "\\2", "\\k<n>", "\\k<-1>", "\\k<1>", "\\k'n'", "\\g<1>", "\\g1", "\\K", "\\G", "\\b", "\\B", "\\A", "\\z", "\\Z", "\\h", "\\e", "\\d", "\\w", "\\p{L}", "\\pL", "\\p{",
    "\\x41", "\\x{41}", "\\x{", "\\u0041", "\\U0001F600", "\\x", "\\u", "\\é",
    // numbers
    "{99999999999999999999}", "{18446744073709551615}", "{4294967296}", "\\99999999999", "\\k<99999999999>", "\\k<-99999999999>", "\\k<-9223372036854775808>", "\\g<99999999999>",
];

const MEM_BASE: usize = 64 << 20;
const MEM_PER_BYTE: usize = 4 << 10;
const WALL_LIMIT_S: f64 = 5.0;
const PROCESS_CAP: usize = 1 << 30;

fn probes() -> Vec<String> {
    let mut v = Vec::new();
    for n in [62usize, 63, 64, 65, 200, 10_000, 100_000] {
        v.push("(".repeat(n));
        v.push("(?:".repeat(n));
        v.push("[".repeat(n));
        v.push("(?>a".repeat(n));
        v.push("(a|".repeat(n));
        v.push(format!("{}a{}", "(".repeat(n), ")".repeat(n)));
        v.push(format!("{}a{}", "(?:".repeat(n), ")".repeat(n)));
        v.push("(?=".repeat(n));
        v.push("(?(".repeat(n));
        v.push(format!("{}a{}", "(?i:".repeat(n), ")".repeat(n)));
    }
    v.push("a|".repeat(100_000));
    v.push("a".repeat(1_000_000));
    v.push("(?=)a|".repeat(20_000));
    // long alternations that the VM compiles itself (hard branches without delegates), alone and
    // inside a group that a backreference refers to
    for n in [2_000usize, 20_000, 200_000] {
        v.push(format!("{}\\bw", "\\bw|".repeat(n)));
        v.push(format!("({}w) \\1", "w|".repeat(n)));
    }
    for n in [10usize, 100, 1000, 10_000, 100_000] {
        v.push(format!("\\w{{{}}}", n));
        v.push(format!("(?=)\\w{{{}}}", n));
        v.push(format!("(?:a{{{}}}){{{}}}", n.min(65535), n.min(65535)));
        v.push(format!("(?=)(?:a{{{}}}){{{}}}", n.min(65535), n.min(65535)));
        v.push(format!("{}\\{}", "(a)".repeat(n.min(20_000)), n.min(20_000)));
        v.push(format!("(?<n>a){}", "\\k<n>".repeat(n.min(20_000))));
        v.push(format!("a{}", "{1}".repeat(n.min(50_000))));
        v.push(format!("a{}", "?".repeat(n.min(50_000))));
        v.push(format!("(?=)a{}", "*+".repeat(n.min(50_000))));
    }
    // nested small repeat counts around a hard and around an easy body (a compiler that
    // unrolls small counts multiplies the program size per nesting level)
    for k in [2usize, 3, 4] {
        for d in [8usize, 12, 16, 30, 60] {
            for body in ["a(?=b)", "a", "(a)\\1"] {
                v.push(format!("{}{}{}", "(?:".repeat(d), body, format!("){{{}}}", k).repeat(d)));
            }
        }
    }
    for s in ["(?:ab){18446744073709551615}", "(?:a{2,}){18446744073709551615}", "(?=)(?:ab){18446744073709551615}", "a{18446744073709551615}{2}", "(?:a{4294967296}){4294967296}",
        "(?(a{18446744073709551615})b{18446744073709551615}|c)", "(?<=a{18446744073709551615})", "\\k<99999999999>", "\\g<99999999999>", "(?#😀\\", "(?#\\", "\\k<-99999999999>", "(?<n>)\\k<-18446744073709551615>", "\\18446744073709551616"] {
        v.push(s.to_string());
    }
    v
}

fn mutations() -> Vec<String> {
    // every single-token deletion and duplication of a corpus of valid patterns (EXH(3), every 7th)
    let mut e = space::Enumerator::new(space::fancy_grammar(space::core_atoms()));
    let mut pats = Vec::new();
    e.for_each_upto(3, &mut |i, n| {
        if i % 7 == 0 {
            pats.push(ast::to_pattern(&n));
        }
    });
    let mut out = Vec::new();
    for p in pats.iter().take(400) {
        let cs: Vec<char> = p.chars().collect();
        for i in 0..cs.len() {
            let mut d = cs.clone();
            d.remove(i);
            out.push(d.iter().collect::<String>());
            let mut u = cs.clone();
            u.insert(i, cs[i]);
            out.push(u.iter().collect::<String>());
        }
    }
    out.sort();
    out.dedup();
    out
}

fn n_sequences(max_len: usize) -> usize {
    (0..=max_len).map(|l| VOCAB.len().pow(l as u32)).sum()
}

fn sequence(mut idx: usize, max_len: usize) -> String {
    for l in 0..=max_len {
        let n = VOCAB.len().pow(l as u32);
        if idx < n {
            let mut s = String::new();
            for _ in 0..l {
                s.push_str(VOCAB[idx % VOCAB.len()]);
                idx /= VOCAB.len();
            }
            return s;
        }
        idx -= n;
    }
    String::new()
}

/// One case: returns a description of the first problem.
fn check_one(s: &str) -> (Option<String>, usize, f64, bool) {
    let mark = alloc::mark();
    let t0 = Instant::now();
    let r = catch_unwind(AssertUnwindSafe(|| {
        let a = fancy_regex::Regex::new(s);
        let ok = a.is_ok();
        let mut problem = None;
        if let Err(e) = &a {
            let shown = format!("{} / {:?}", e, e);
            let _ = shown.len();
            if let fancy_regex::Error::ParseError(pos, _) = e {
                if *pos > s.len() {
                    problem = Some(format!("parse-error position {} beyond the pattern length {}", pos, s.len()));
                }
            }
        }
        drop(a);
        let b = fancy_regex::Expr::parse_tree(s);
        if let Err(fancy_regex::Error::ParseError(pos, _)) = &b {
            if *pos > s.len() && problem.is_none() {
                problem = Some(format!("Expr::parse_tree: parse-error position {} beyond the pattern length {}", pos, s.len()));
            }
        }
        (problem, ok)
    }));
    let wall = t0.elapsed().as_secs_f64();
    let peak = alloc::peak_since(mark);
    match r {
        Err(p) => (Some(format!("panic: {}", engine::panic_msg(p))), peak, wall, false),
        Ok((mut problem, ok)) => {
            let allowed = MEM_BASE + MEM_PER_BYTE * s.len();
            if problem.is_none() && peak > allowed {
                problem = Some(format!("peak heap {} bytes for a pattern of {} bytes (allowed {})", peak, s.len(), allowed));
            }
            if problem.is_none() && wall > WALL_LIMIT_S {
                // re-measure alone before reporting
                let t1 = Instant::now();
                let _ = catch_unwind(AssertUnwindSafe(|| fancy_regex::Regex::new(s).is_ok()));
                let w2 = t1.elapsed().as_secs_f64();
                if w2 > WALL_LIMIT_S {
                    problem = Some(format!("compilation takes {:.1} s (re-measured {:.1} s) for a pattern of {} bytes", wall, w2, s.len()));
                }
            }
            (problem, peak, wall, ok)
        }
    }
}

/// Worker: `frmc c06-worker <shard> <nshards> <max_len> <careful>`; prints protocol lines.
pub fn worker(args: &[String]) -> i32 {
    let shard: usize = args[0].parse().unwrap();
    let nshards: usize = args[1].parse().unwrap();
    let max_len: usize = args[2].parse().unwrap();
    let careful = args[3] == "1";
    engine::quiet_panics();
    alloc::enable(PROCESS_CAP);
    let out = std::io::stdout();
    let mut out = out.lock();
    let nseq = n_sequences(max_len);
    let extra: Vec<String> = probes().into_iter().chain(mutations()).collect();
    let total = nseq + extra.len();
    let (mut cases, mut compiled, mut peak_max, mut wall_max, mut distinct_err) = (0u64, 0u64, 0usize, 0f64, 0u64);
    let mut samples = Vec::new();
    // contiguous blocks of 4096 assigned round-robin
    let block = 4096;
    let mut idx = shard * block;
    while idx < total {
        let end = (idx + block).min(total);
        for i in idx..end {
            let s_owned;
            let s: &str = if i < nseq {
                s_owned = sequence(i, max_len);
                &s_owned
            } else {
                &extra[i - nseq]
            };
            if careful {
                let _ = writeln!(out, "C\t{}", i);
                let _ = out.flush();
            }
            let (problem, peak, wall, ok) = check_one(s);
            cases += 1;
            if ok {
                compiled += 1;
                if samples.len() < 3 && s.len() > 6 {
                    samples.push(J::from(s));
                }
            } else {
                distinct_err += 1;
            }
            peak_max = peak_max.max(peak);
            if wall > wall_max {
                wall_max = wall;
            }
            if let Some(p) = problem {
                let shown: String = if s.len() > 200 { format!("{}... ({} bytes)", s.chars().take(60).collect::<String>(), s.len()) } else { s.to_string() };
                let j = jobj! {"kind" => "c06", "index" => i, "pattern" => if s.len() > 4000 { shown.as_str() } else { s }, "observed" => p.as_str(), "len" => s.len(),
                    "summary" => format!("Regex::new({:?}): {}", shown, p)};
                let _ = writeln!(out, "V\t{}", j.to_string_compact());
            }
        }
        idx += nshards * block;
    }
    let st = jobj! {"cases" => cases, "compiled" => compiled, "errors" => distinct_err, "peak_max" => peak_max, "wall_max" => wall_max, "samples" => J::Arr(samples)};
    let _ = writeln!(out, "S\t{}", st.to_string_compact());
    0
}

fn case_string(i: usize, max_len: usize) -> String {
    let nseq = n_sequences(max_len);
    if i < nseq {
        sequence(i, max_len)
    } else {
        probes().into_iter().chain(mutations()).nth(i - nseq).unwrap_or_default()
    }
}

pub fn run_c06(cx: &Ctx) -> i32 {
    let max_len = if cx.quick() { 3 } else { 4 };
    let nshards = frmc_core::par::n_threads();
    let exe = std::env::current_exe().expect("current exe");
    let spawn = |shard: usize, careful: bool| {
        Command::new(&exe)
            .args(["c06-worker", &shard.to_string(), &nshards.to_string(), &max_len.to_string(), if careful { "1" } else { "0" }])
            .stdout(Stdio::piped())
            .stderr(Stdio::null())
            .spawn()
            .expect("spawn worker")
    };
    let mut t = Tally::new();
    let mut peak_max = 0i64;
    let mut wall_max = 0f64;
    let children: Vec<_> = (0..nshards).map(|s| (s, spawn(s, false))).collect();
    let mut crashed = Vec::new();
    let mut handle_lines = |t: &mut Tally, lines: &[String], peak_max: &mut i64, wall_max: &mut f64| -> Option<usize> {
        let mut last_case = None;
        for l in lines {
            if let Some(rest) = l.strip_prefix("V\t") {
                if let Ok(j) = json::parse(rest) {
                    let w = j.int_of("len") as usize;
                    t.violation(w, j);
                }
            } else if let Some(rest) = l.strip_prefix("S\t") {
                if let Ok(j) = json::parse(rest) {
                    t.programs += j.int_of("cases") as u64;
                    t.evaluations += j.int_of("cases") as u64;
                    t.count("compiled_ok", j.int_of("compiled") as u64);
                    t.count("rejected_with_error", j.int_of("errors") as u64);
                    *peak_max = (*peak_max).max(j.int_of("peak_max"));
                    if let Some(J::Num(w)) = j.get("wall_max") {
                        if *w > *wall_max {
                            *wall_max = *w;
                        }
                    }
                    if let Some(J::Arr(a)) = j.get("samples") {
                        for s in a {
                            if t.samples.len() < 8 {
                                t.samples.push(s.clone());
                            }
                        }
                    }
                }
            } else if let Some(rest) = l.strip_prefix("C\t") {
                last_case = rest.parse().ok();
            }
        }
        last_case
    };
    for (shard, mut ch) in children {
        let stdout = ch.stdout.take().unwrap();
        let lines: Vec<String> = std::io::BufReader::new(stdout).lines().map_while(Result::ok).collect();
        let status = ch.wait().expect("wait");
        if status.success() && lines.iter().any(|l| l.starts_with("S\t")) {
            handle_lines(&mut t, &lines, &mut peak_max, &mut wall_max);
        } else {
            crashed.push(shard);
        }
    }
    // a worker that died is re-run in careful mode; the last announced case is the crashing input
    for shard in crashed {
        let mut skip_after: Option<usize> = None;
        let mut ch = spawn(shard, true);
        let stdout = ch.stdout.take().unwrap();
        let lines: Vec<String> = std::io::BufReader::new(stdout).lines().map_while(Result::ok).collect();
        let status = ch.wait().expect("wait");
        let last = handle_lines(&mut t, &lines, &mut peak_max, &mut wall_max);
        if status.success() {
            eprintln!("machinery: shard {} crashed once but not in careful mode", shard);
            return 2;
        }
        match last {
            Some(i) => {
                let s = case_string(i, max_len);
                let shown: String = if s.len() > 200 { format!("{}... ({} bytes)", s.chars().take(60).collect::<String>(), s.len()) } else { s.clone() };
                t.violation(
                    s.len(),
                    jobj! {"kind" => "c06", "index" => i, "pattern" => if s.len() > 4000 { shown.clone() } else { s.clone() }, "len" => s.len(), "observed" => format!("process died: {:?}", status),
                    "summary" => format!("Regex::new({:?}) kills the process ({:?}: abort on allocation failure beyond the 1 GiB cap, or native stack overflow)", shown, status)},
                );
                t.count("worker_crashes_attributed", 1);
                skip_after = Some(i);
            }
            None => {
                eprintln!("machinery: shard {} dies before its first case", shard);
                return 2;
            }
        }
        let _ = skip_after;
        t.count("shards_incomplete_after_crash(cases after the crashing input not run)", 1);
    }
    let nseq = n_sequences(max_len);
    let complete = !t.counters.keys().any(|k| k.starts_with("shards_incomplete"));
    t.nontrivial = *t.counters.get("compiled_ok").unwrap_or(&0);
    finish(
        cx,
        t,
        Finish {
            rule: format!(
                "all {} token sequences of length <= {} over the {}-token vocabulary (syntax fragments, multi-byte characters, unbalanced delimiters, huge numbers) plus {} fixed depth/size probes and {} single-character deletions/duplications of valid patterns; each string is compiled with Regex::new and parsed with Expr::parse_tree in one of {} worker processes under a counting allocator; oracle: returns Ok or Err (no panic, overflow checks on), Display/Debug of the error do not panic, parse-error position <= length, peak heap <= 64 MiB + 4 KiB per pattern byte, wall <= {} s (re-measured alone), the process survives (1 GiB allocation cap; a dead worker is re-run in careful mode and the crashing input reported); distinct_nontrivial = strings that compile",
                nseq, max_len, VOCAB.len(), probes().len(), mutations().len(), nshards, WALL_LIMIT_S
            ),
            exhaustive: complete,
            bounds: jobj! {"max_tokens" => max_len, "vocabulary" => VOCAB.len(), "sequences" => nseq},
            assumptions: vec!["'proportional' is checked against explicit caps (64 MiB + 4 KiB/byte, 5 s), not proved".into()],
            extra: vec![("peak_bytes_max".into(), peak_max.into()), ("wall_max_s".into(), wall_max.into())],
        },
    )
}
