//! C16: group metadata is consistent across Regex, Captures and both engines.
//! C17: escape(text) is a pattern that matches exactly text.

use crate::common::*;
use crate::engine::{self, Out};
use crate::props::c05::unr_space;
use crate::refsweep::weight;
use frmc_core::ast::{self, Naming};
use frmc_core::jobj;
use frmc_core::par;
use frmc_core::space;
use std::panic::{catch_unwind, AssertUnwindSafe};

pub fn run_c16(cx: &Ctx) -> i32 {
    let k = if cx.quick() { 4 } else { 5 };
    let space = unr_space(k);
    let alphabet = vec!['a', 'b', 'é'];
    let max_len = if cx.quick() { 2 } else { 3 };
    let texts = space::texts(&alphabet, max_len);
    let tallies = par::run_workers(32, |_w, claimer| {
        engine::quiet_panics();
        engine::set_sweep_horizons(40_000, 5_000);
        let mut t = Tally::new();
        space.for_each(claimer, &mut |node, tag| {
            let facts = ast::facts(node);
            if !facts.refs_valid {
                return;
            }
            let ng = facts.n_groups;
            // every capture group independently unnamed / named (alternating (?<n>..) and (?P<n>..));
            // patterns with references can only be all-numbered or all-named
            let mut namings = vec![Naming::Numbered];
            if ng >= 1 {
                if facts.has_backref || facts.has_cond {
                    namings.push(Naming::Angle);
                    namings.push(Naming::Python);
                } else {
                    for m in 1..(1u32 << ng.min(4)) {
                        namings.push(Naming::Mask(m));
                    }
                }
            }
            for naming in namings {
                let pattern = ast::to_pattern_named(node, naming);
                let re = match engine::compile(&pattern) {
                    Ok(r) => r,
                    Err(_) => {
                        t.count("compile_errors", 1);
                        continue;
                    }
                };
                t.programs += 1;
                let (is_vm, _) = engine::engine_class(&re);
                t.count(if is_vm { "programs_vm" } else { "programs_wrapped" }, 1);
                // expected metadata from the harness AST
                let mut exp_names: Vec<Option<String>> = vec![None; ng + 1];
                for g in 1..=ng {
                    let named = match naming {
                        Naming::Numbered | Naming::Relative | Naming::NumericName => false,
                        Naming::Angle | Naming::Python | Naming::Quote => true,
                        Naming::Mask(m) => m & (1 << (g - 1)) != 0,
                    };
                    if named {
                        exp_names[g] = Some(format!("g{}", g));
                    }
                }
                let mut viol = |t: &mut Tally, text: &str, pos: usize, what: String| {
                    t.violation(
                        weight(&pattern, text),
                        jobj! {"kind" => "c16", "pattern" => pattern.as_str(), "text" => text, "pos" => pos, "observed" => what.as_str(),
                        "summary" => format!("/{}/ on {:?} (pos {}): {}", pattern, text, pos, what)},
                    );
                };
                if re.captures_len() != ng + 1 {
                    viol(&mut t, "", 0, format!("captures_len = {}, the pattern has {} capturing groups", re.captures_len(), ng));
                }
                match catch_unwind(AssertUnwindSafe(|| re.capture_names().map(|n| n.map(|s| s.to_string())).collect::<Vec<Option<String>>>())) {
                    Ok(names) => {
                        if names != exp_names {
                            viol(&mut t, "", 0, format!("capture_names = {:?}, expected {:?}", names, exp_names));
                        }
                    }
                    Err(p) => viol(&mut t, "", 0, format!("capture_names panics: {}", engine::panic_msg(p))),
                }
                for text in &texts {
                    for pos in space::offsets(text) {
                        t.evaluations += 1;
                        let r = catch_unwind(AssertUnwindSafe(|| -> Result<bool, String> {
                            let c = match re.captures_from_pos(text, pos) {
                                Ok(Some(c)) => c,
                                _ => return Ok(false),
                            };
                            if c.len() != re.captures_len() {
                                return Err(format!("Captures::len = {} but captures_len = {}", c.len(), re.captures_len()));
                            }
                            let it: Vec<Option<(usize, usize)>> = c.iter().map(|m| m.map(|m| (m.start(), m.end()))).collect();
                            if it.len() != c.len() {
                                return Err(format!("iter() yields {} items, len() = {}", it.len(), c.len()));
                            }
                            for i in 0..c.len() {
                                let g = c.get(i).map(|m| (m.start(), m.end()));
                                if g != it[i] {
                                    return Err(format!("iter()[{}] = {:?} but get({}) = {:?}", i, it[i], i, g));
                                }
                                if let Some(n) = &exp_names[i.min(ng)] {
                                    if i <= ng {
                                        let byname = c.name(n).map(|m| (m.start(), m.end()));
                                        if byname != g {
                                            return Err(format!("name({:?}) = {:?} but get({}) = {:?}", n, byname, i, g));
                                        }
                                    }
                                }
                            }
                            if c.get(0).is_none() {
                                return Err("get(0) is None on a successful search".into());
                            }
                            // the iterator protocol: exactly len() items however it is driven
                            if c.iter().count() != c.len() {
                                return Err(format!("iter().count() = {} but len() = {}", c.iter().count(), c.len()));
                            }
                            let mut it2 = c.iter();
                            if it2.nth(c.len()).is_some() {
                                return Err(format!("iter().nth({}) is Some although len() = {}", c.len(), c.len()));
                            }
                            if it2.next().is_some() {
                                return Err("iter() yields an item after nth() went past the end".into());
                            }
                            for i in 0..c.len() {
                                let via_nth = c.iter().nth(i).map(|m| m.map(|m| (m.start(), m.end())));
                                if via_nth != Some(it[i]) {
                                    return Err(format!("iter().nth({}) = {:?} but get({}) = {:?} (len() = {})", i, via_nth, i, it[i], c.len()));
                                }
                            }
                            let mut it3 = c.iter();
                            for _ in 0..c.len() {
                                it3.next();
                            }
                            if it3.next().is_some() || it3.next().is_some() {
                                return Err("iter() yields an item after len() items".into());
                            }
                            let sk: Vec<Option<(usize, usize)>> = c.iter().skip(1).map(|m| m.map(|m| (m.start(), m.end()))).collect();
                            if sk[..] != it[1..] {
                                return Err(format!("iter().skip(1) yields {:?}, iter() yields {:?}", sk, it));
                            }
                            let (lo, hi) = c.iter().size_hint();
                            if lo > c.len() || hi.map_or(false, |h| h < c.len()) {
                                return Err(format!("iter().size_hint() = ({}, {:?}) but len() = {}", lo, hi, c.len()));
                            }
                            // every index >= len: the next three, and the indices at which a
                                // slot computation (2i, 2i+1) wraps or overflows
                                let big = [usize::MAX, usize::MAX - 1, usize::MAX / 2, usize::MAX / 2 + 1, usize::MAX / 2 + 2, 1usize << 62, (1usize << 63) + c.len(), u32::MAX as usize, u32::MAX as usize + 1, (1usize << 31) + 1];
                            for i in (c.len()..c.len() + 3).chain(big.iter().copied()) {
                                let got = match catch_unwind(AssertUnwindSafe(|| c.get(i).is_some())) {
                                    Ok(b) => b,
                                    Err(p) => return Err(format!("get({}) panics ({}) although len() = {}: an index that is not a group must give None", i, engine::panic_msg(p), c.len())),
                                };
                                if got {
                                    return Err(format!("get({}) is Some although len() = {}", i, c.len()));
                                }
                            }
                            if c.name("nosuchname").is_some() {
                                return Err("name(\"nosuchname\") is Some".into());
                            }
                            Ok(true)
                        }));
                        match r {
                            Ok(Ok(true)) => {
                                if ng >= 1 {
                                    t.nontrivial += 1;
                                    t.sample(6, || jobj! {"pattern" => pattern.as_str(), "text" => text.as_str(), "pos" => pos, "names" => format!("{:?}", exp_names), "vm" => is_vm, "space" => tag});
                                }
                            }
                            Ok(Ok(false)) => {}
                            Ok(Err(e)) => viol(&mut t, text, pos, e),
                            Err(_) => t.count("panics(left to C05)", 1),
                        }
                    }
                }
            }
        });
        t
    });
    let t = Tally::merge_all(tallies);
    finish(
        cx,
        t,
        Finish {
            rule: format!(
                "every pattern of {} in which every capture group is independently unnamed / (?<n>..) / (?P<n>..) (all-named spellings for patterns with references) x every text over {:?} up to length {} x every offset; oracle: harness-side group count and name->index map versus captures_len, capture_names (length, each name at its index, None elsewhere) and, for every successful search, Captures::len == captures_len, iter() yields len() items equal to get(i) (also through count, nth past the end followed by next, skip, size_hint), name(n) == get(index of n), get(0) is Some, get(i >= len) is None; both engine classes occur (counters); non-trivial = successful searches of patterns with at least one group",
                space.describe(), alphabet, max_len
            ),
            exhaustive: true,
            bounds: jobj! {"space" => space.describe(), "max_text_len" => max_len, "node_bound" => k},
            assumptions: vec![],
            extra: vec![],
        },
    )
}

const HOSTS: &[(&str, &str, &str)] = &[
    ("□", "", ""),
    ("(?=)□", "(?=)", ""),
    ("x□y", "x", "y"),
    ("(□)\\1", "(", ")\\1"),
    ("(?<=x)□", "(?<=x)", ""),
    ("(?>□)", "(?>", ")"),
    ("(?=)[xy]□", "(?=)[xy]", ""),
    ("□[xy](?=)", "", "[xy](?=)"),
    ("(?<=□)x", "(?<=", ")x"),
    ("(?i:x)□(?!y)", "(?i:x)", "(?!y)"),
    // a deeply nested host (a trie-shaped "any of these words" pattern nests as deep as its longest word)
    ("(?:{40}□){40}", "(?:(?:(?:(?:(?:(?:(?:(?:(?:(?:(?:(?:(?:(?:(?:(?:(?:(?:(?:(?:(?:(?:(?:(?:(?:(?:(?:(?:(?:(?:(?:(?:(?:(?:(?:(?:(?:(?:(?:(?:", "))))))))))))))))))))))))))))))))))))))))"),
];

/// where the literal host would match: same search written with str::find
fn host_expected(host: &str, s: &str, text: &str) -> Option<(usize, usize)> {
    match host {
        "□" | "(?=)□" | "(?>□)" | "(?:{40}□){40}" => text.find(s).map(|i| (i, i + s.len())),
        "x□y" => {
            let lit = format!("x{}y", s);
            text.find(&lit).map(|i| (i, i + lit.len()))
        }
        "(□)\\1" => {
            let lit = format!("{}{}", s, s);
            text.find(&lit).map(|i| (i, i + lit.len()))
        }
        "(?=)[xy]□" => {
            let a = text.find(&format!("x{}", s));
            let b = text.find(&format!("y{}", s));
            let i = match (a, b) {
                (Some(a), Some(b)) => Some(a.min(b)),
                (a, b) => a.or(b),
            };
            i.map(|i| (i, i + 1 + s.len()))
        }
        "□[xy](?=)" => {
            let a = text.find(&format!("{}x", s));
            let b = text.find(&format!("{}y", s));
            let i = match (a, b) {
                (Some(a), Some(b)) => Some(a.min(b)),
                (a, b) => a.or(b),
            };
            i.map(|i| (i, i + 1 + s.len()))
        }
        "(?i:x)□(?!y)" => {
            // leftmost x or X directly followed by s (case-sensitively) and not by y after it
            for (i, c) in text.char_indices() {
                if (c == 'x' || c == 'X') && text[i + 1..].starts_with(s) && !text[i + 1 + s.len()..].starts_with('y') {
                    return Some((i, i + 1 + s.len()));
                }
            }
            None
        }
        "(?<=□)x" => {
            let lit = format!("{}x", s);
            text.find(&lit).map(|i| (i + s.len(), i + s.len() + 1))
        }
        "(?<=x)□" => {
            let lit = format!("x{}", s);
            // leftmost occurrence of s that is preceded by x
            let mut from = 0;
            while let Some(i) = text[from..].find(&lit) {
                return Some((from + i + 1, from + i + 1 + s.len()));
            }
            let _ = &mut from;
            None
        }
        _ => None,
    }
}

pub fn run_c17(cx: &Ctx) -> i32 {
    let meta: Vec<char> = "\\.+*?()|[]{}^$#".chars().collect();
    let mut alphabet = meta.clone();
    alphabet.extend(['a', '0', ' ', '\t', 'é', '€', '😀', '-', '&', '~', 'à', '\u{a0}', '\u{8}', '\u{7}', '\u{b}', '\u{1b}', '\u{0}']);
    let max_len = if cx.quick() { 3 } else { 5 };
    let mut strings = space::texts(&alphabet, max_len);
    // long strings: an ASCII stretch of every length up to 70, a multi-byte character, then special
    // characters (block-wise scanning or copying inside escape)
    for k in 0..=70usize {
        for mb in ["é", "€", "😀"] {
            for tail in ["", ".", "a.", "(*", "é$"] {
                strings.push(format!("{}{}{}", "a".repeat(k), mb, tail));
            }
        }
    }
    let total = strings.len();
    let tallies = par::run_workers(64, |_w, claimer| {
        engine::quiet_panics();
        engine::set_sweep_horizons(40_000, 5_000);
        let mut t = Tally::new();
        for (idx, s) in strings.iter().enumerate() {
            if !claimer.is_mine(idx) {
                continue;
            }
            let mut viol = |t: &mut Tally, text: &str, what: String| {
                t.violation(
                    s.len() * 8 + text.len(),
                    jobj! {"kind" => "c17", "pattern" => s.as_str(), "text" => text, "pos" => 0, "observed" => what.as_str(),
                    "summary" => format!("escape({:?}) on {:?}: {}", s, text, what)},
                );
            };
            let esc = match catch_unwind(AssertUnwindSafe(|| fancy_regex::escape(s))) {
                Ok(e) => e,
                Err(_) => {
                    viol(&mut t, "", "escape panics".into());
                    continue;
                }
            };
            let needs = s.chars().any(|c| meta.contains(&c));
            let borrowed = matches!(esc, std::borrow::Cow::Borrowed(_));
            if borrowed == needs {
                viol(&mut t, "", format!("escape borrows = {} although special characters present = {}", borrowed, needs));
            }
            // texts: s, x+s+y for x,y in a small set, s with one character dropped, s doubled
            let mut texts: Vec<String> = vec![s.clone(), format!("{}{}", s, s)];
            for x in ["", "a", "\\", "x", "é"] {
                for y in ["", "a", "$", "y", "x"] {
                    texts.push(format!("{}{}{}", x, s, y));
                }
            }
            // the string in the other case (an escaped string is matched case-sensitively whatever
            // stands next to it)
            let swapped: String = s.chars().map(|c| if c.is_lowercase() { c.to_uppercase().next().unwrap_or(c) } else { c.to_lowercase().next().unwrap_or(c) }).collect();
            if swapped != *s {
                for x in ["", "x", "X"] {
                    texts.push(format!("{}{}", x, swapped));
                    texts.push(format!("{}{} {}{}", x, swapped, x, s));
                }
            }
            let cs: Vec<char> = s.chars().collect();
            for i in 0..cs.len() {
                let mut d = cs.clone();
                d.remove(i);
                texts.push(d.iter().collect());
                texts.push(format!("x{}y", d.iter().collect::<String>()));
            }
            texts.sort();
            texts.dedup();
            for (host, pre, post) in HOSTS {
                if s.is_empty() && *host != "□" {
                    continue;
                }
                let pattern = format!("{}{}{}", pre, esc, post);
                let re = match engine::compile(&pattern) {
                    Ok(r) => r,
                    Err(e) => {
                        viol(&mut t, "", format!("host {}: /{}/ does not compile: {:?}", host, pattern, e));
                        continue;
                    }
                };
                t.programs += 1;
                for text in &texts {
                    t.evaluations += 1;
                    let exp = host_expected(host, s, text);
                    let got = engine::find_at(&re, text, 0);
                    let ok = match (&got, exp) {
                        (Out::Match(g), Some(e)) => g[0] == Some(e),
                        (Out::NoMatch, None) => true,
                        _ => false,
                    };
                    if !ok {
                        viol(&mut t, text, format!("host {}: /{}/ finds {} but the literal occurs at {:?}", host, pattern, got.short(), exp));
                    } else if exp.is_some() && needs {
                        t.nontrivial += 1;
                        t.sample(6, || jobj! {"string" => s.as_str(), "escaped" => esc.as_ref(), "host" => *host, "text" => text.as_str(), "span" => format!("{:?}", exp)});
                    }
                }
            }
        }
        t
    });
    let t = Tally::merge_all(tallies);
    finish(
        cx,
        t,
        Finish {
            rule: format!(
                "all {} strings: every string of length <= {} over the 15 regex meta-characters plus [a,0,space,tab,e-acute,euro,emoji,-,&,~,a-grave (its UTF-8 ends in the byte A0),no-break space,backspace,bell,vertical tab,escape,NUL], and 1 065 long strings (an ASCII stretch of every length 0..70, a multi-byte character, special characters); each escaped string alone and embedded in the hosts {:?}; texts: s, s doubled, x+s+y for x in ['',a,\\,x,e-acute] and y in ['',a,$,y], s with one character dropped (bare and inside x..y); oracle: Regex::new(escape(s)) compiles, find span == str::find span of the literal the host spells, Cow::Borrowed iff s has no special character; non-trivial = found occurrences of strings that needed escaping",
                total, max_len, HOSTS.iter().map(|h| h.0).collect::<Vec<_>>()
            ),
            exhaustive: true,
            bounds: jobj! {"alphabet_size" => alphabet.len(), "max_len" => max_len, "strings" => total},
            assumptions: vec!["no (?x) host and no character-class host: not promised by the documentation".into()],
            extra: vec![],
        },
    )
}
