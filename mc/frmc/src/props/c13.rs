//! C13: look-behind needs a fixed length; the static size facts are sound.

use crate::common::*;
use crate::counts;
use crate::engine::{self, CompileFail};
use crate::expr_ir;
use crate::props::c05::unr_atoms;
use crate::refsweep::{self, weight, RefCfg};
use crate::spaces::Space;
use fancy_regex::verif::NodeDump;
use frmc_core::ast::{self, lit, Facts, LookKind, Mode, Node};
use frmc_core::ir::{Id, Ir};
use frmc_core::jobj;
use frmc_core::par;
use frmc_core::refsem::Matcher;
use frmc_core::space::{self, Grammar, Unary};
use std::collections::{BTreeMap, BTreeSet};
use std::panic::{catch_unwind, AssertUnwindSafe};

fn lookbehind_grammar() -> Grammar {
    Grammar {
        atoms: vec![lit("a"), lit("é"), Node::Dot, lit("ab"), Node::Backref(1)],
        unary: vec![
            Unary::Look(LookKind::Behind),
            Unary::Look(LookKind::BehindNeg),
            Unary::Group,
            Unary::Rep(0, Some(1), Mode::Greedy),
            Unary::Rep(0, None, Mode::Greedy),
            Unary::Rep(2, Some(2), Mode::Greedy),
            Unary::Rep(1, Some(2), Mode::Lazy),
        ],
        concat: true,
        alt: true,
        cond_group: false,
        cond_expr: false,
        empty_alt: true,
    }
}

fn facts_space(k: usize) -> Space {
    let mut g = space::fancy_grammar(unr_atoms());
    g.cond_group = true;
    g.cond_expr = true;
    // conditionals with consuming, variable-size conditions need 5 nodes: (?(a*)b|c)
    let cond_atoms = vec![lit("a"), lit("b"), Node::Dot, Node::Assert(frmc_core::ast::A::End), Node::Backref(1), Node::CondExists(1)];
    Space::new()
        .exh("unrestricted", g, k)
        .exh("conditionals", space::cond_grammar(cond_atoms), k + 2)
        .exh("look-behind", lookbehind_grammar(), k + 1)
        .ctxfill(3, 1, &|c| c.name.contains("(?<"))
        .ctxfill(2, 1, &|c| !c.name.contains("(?<"))
}

fn chars_between(text: &str, s: usize, e: usize) -> Option<usize> {
    if s <= e {
        Some(text[s..e].chars().count())
    } else {
        None
    }
}

pub fn run_c13(cx: &Ctx) -> i32 {
    let k = if cx.quick() { 3 } else { 4 };
    let space = facts_space(k);
    let alphabet = vec!['a', 'b', 'é', '\n'];
    let max_len = if cx.quick() { 3 } else { 4 };
    let texts = space::texts(&alphabet, max_len);
    let tallies = par::run_workers(16, |_w, claimer| {
        engine::quiet_panics();
        engine::set_sweep_horizons(40_000, 5_000);
        let mut t = Tally::new();
        space.for_each(claimer, &mut |node, tag| {
            let facts = ast::facts(node);
            if !facts.refs_valid {
                return;
            }
            let pattern = ast::to_pattern(node);
            let dump: NodeDump = match catch_unwind(AssertUnwindSafe(|| fancy_regex::verif::analysis(&pattern))) {
                Ok(Ok(d)) => d,
                Ok(Err(_)) => {
                    t.count("analysis_errors", 1);
                    return;
                }
                Err(_) => {
                    t.count("analysis_panic(left to C06)", 1);
                    return;
                }
            };
            let tree = match fancy_regex::Expr::parse_tree(&pattern) {
                Ok(tr) => tr,
                Err(_) => return,
            };
            let ep = match expr_ir::from_expr(&tree.expr) {
                Ok(p) => p,
                Err(_) => {
                    t.count("skipped_unsupported", 1);
                    return;
                }
            };
            t.programs += 1;
            // observe: all paths, every text, every start
            let mut lens: BTreeMap<Id, BTreeSet<usize>> = BTreeMap::new();
            let mut witness: BTreeMap<(Id, usize), (String, usize)> = BTreeMap::new();
            let mut fuel_out = false;
            for text in &texts {
                let mut m = Matcher::new(&ep.prog, text, 0, false).recording();
                m.fuel = 200_000;
                m.explore_all();
                if m.exhausted() {
                    fuel_out = true;
                }
                t.evaluations += 1;
                for (id, s, e) in m.take_record() {
                    if let Some(l) = chars_between(text, s, e) {
                        if lens.entry(id).or_default().insert(l) {
                            witness.insert((id, l), (text.clone(), s));
                        }
                    }
                }
            }
            if fuel_out {
                t.count("reference_fuel_cut(observation stays a lower approximation)", 1);
            }
            // Oracle A: facts versus observed lengths, node by node (same preorder)
            let mut flat: Vec<&NodeDump> = Vec::new();
            fn flatten<'a>(d: &'a NodeDump, out: &mut Vec<&'a NodeDump>) {
                out.push(d);
                for c in &d.children {
                    flatten(c, out);
                }
            }
            flatten(&dump, &mut flat);
            if flat.len() != ep.preorder.len() {
                // the analysis tree no longer mirrors the Expr tree: the facts cannot be matched
                // to sub-expressions - a limitation of the harness, never a verdict
                t.count("analysis_shape_mismatch(facts not checked)", 1);
                return;
            }
            let mut nontrivial_nodes = 0;
            for (ix, d) in flat.iter().enumerate() {
                let Some(id) = ep.preorder[ix] else { continue };
                let Some(s) = lens.get(&id) else { continue };
                if s.len() >= 2 {
                    nontrivial_nodes += 1;
                }
                let min_obs = *s.iter().next().unwrap();
                let bad_min = min_obs < d.min_size;
                let bad_const = d.const_size && s.iter().any(|&l| l != d.min_size);
                if bad_min || bad_const {
                    let l = if bad_min { min_obs } else { *s.iter().find(|&&l| l != d.min_size).unwrap() };
                    let (wt, ws) = witness.get(&(id, l)).cloned().unwrap_or_default();
                    t.violation(
                        weight(&pattern, &wt),
                        jobj! {"kind" => "c13", "pattern" => pattern.as_str(), "text" => wt.as_str(), "pos" => ws, "node" => ix,
                        "observed" => format!("lengths {:?}", s), "facts" => format!("min_size={} const_size={}", d.min_size, d.const_size),
                        "summary" => format!("/{}/ node #{} (preorder): analysis says min_size={} const_size={}, but it matches {} character(s) of {:?} from byte {} (observed lengths {:?})", pattern, ix, d.min_size, d.const_size, l, wt, ws, s)},
                    );
                }
            }
            t.nontrivial += nontrivial_nodes;
            if nontrivial_nodes > 0 {
                t.sample(6, || jobj! {"pattern" => pattern.as_str(), "nodes" => flat.len(), "nodes_with_two_or_more_observed_lengths" => nontrivial_nodes, "space" => tag});
            }
            // Oracle B: acceptance of look-behinds
            if facts.has_lookbehind {
                let compiled = engine::compile(&pattern);
                let mut variable: Option<(Id, BTreeSet<usize>)> = None;
                for n in &ep.prog.nodes {
                    if let Ir::LookBehind { alts, .. } = n {
                        for (alt, _) in alts {
                            if let Some(s) = lens.get(alt) {
                                if s.len() >= 2 && variable.is_none() {
                                    variable = Some((*alt, s.clone()));
                                }
                            }
                        }
                    }
                }
                match (&compiled, &variable) {
                    (Ok(_), Some((_, s))) => {
                        t.violation(
                            weight(&pattern, ""),
                            jobj! {"kind" => "c13", "pattern" => pattern.as_str(), "text" => "", "pos" => 0, "observed" => format!("compiles; look-behind alternative matches lengths {:?}", s),
                            "summary" => format!("/{}/ compiles although a look-behind alternative matches strings of lengths {:?}", pattern, s)},
                        );
                    }
                    (Err(CompileFail::Err(kind)), Some((_, s))) if kind != "Compile:LookBehindNotConst" => {
                        t.violation(
                            weight(&pattern, ""),
                            jobj! {"kind" => "c13", "pattern" => pattern.as_str(), "text" => "", "pos" => 0, "observed" => kind.as_str(),
                            "summary" => format!("/{}/ has a look-behind alternative of lengths {:?} and is rejected with {} instead of LookBehindNotConst", pattern, s, kind)},
                        );
                    }
                    (Ok(_), None) => t.count("lookbehind_accepted", 1),
                    (Err(CompileFail::Err(kind)), _) if kind == "Compile:LookBehindNotConst" => {
                        if variable.is_some() {
                            t.count("lookbehind_rejected_variable_length_observed", 1)
                        } else {
                            t.count("lookbehind_rejected_no_second_length_observed", 1)
                        }
                    }
                    _ => t.count("lookbehind_other_compile_error", 1),
                }
                // B2: a rejected look-behind stays rejected wherever the pattern is embedded, also
                // where it can never be executed (the length check is a property of the pattern text,
                // not of the paths a search takes)
                if matches!(&compiled, Err(CompileFail::Err(kind)) if kind == "Compile:LookBehindNotConst") && facts.n_groups == 0 && !facts.has_backref && !facts.has_cond {
                    for host in ["(?:□){0}a", "(?:□){0,0}", "(?:□)?a", "a|□", "(?!□)a", "(?>□)*", "(?(a)□|b)", "(□)", "(?=□)", "(?:a{0}|(?:□){0})b"] {
                        let hp = host.replace('□', &pattern);
                        t.evaluations += 1;
                        if engine::compile(&hp).is_ok() {
                            t.violation(
                                weight(&hp, ""),
                                jobj! {"kind" => "c13", "pattern" => hp.as_str(), "text" => "", "pos" => 0, "observed" => "compiles",
                                "summary" => format!("/{}/ compiles although its part /{}/ is rejected with LookBehindNotConst", hp, pattern)},
                            );
                        }
                    }
                    t.count("rejected_lookbehinds_embedded_in_hosts", 1);
                }
            }
        });
        t
    });
    let mut t = Tally::merge_all(tallies);
    if *t.counters.get("analysis_shape_mismatch(facts not checked)").unwrap_or(&0) * 2 > t.programs {
        eprintln!("machinery error: the analysis dump (hook H2) no longer has the shape of the Expr tree for most patterns");
        return 2;
    }
    // Oracle C: behaviour of accepted look-behinds on multi-byte texts, against the reference
    fn has_lb(_n: &Node, f: &Facts) -> bool {
        f.has_lookbehind
    }
    let lb_space = Space::new().exh("look-behind", lookbehind_grammar(), k + 1).ctxfill(3, 1, &|c| c.name.contains("(?<"));
    let cfg = RefCfg {
        check_span: true,
        check_groups: true,
        check_is_match: false,
        need_scoped: true,
        filter: Some(has_lb),
        shadow: false,
        alphabet: vec!['a', 'b', 'é', '€'],
        max_len: 3, text_list: None, offset0_only: false, letter_names: false, casei: false,
    };
    let t2 = refsweep::run(cx, &lb_space, &cfg);
    t.count("oracleC_programs", t2.programs);
    t.count("oracleC_evaluations", t2.evaluations);
    t.merge(t2);
    let (dense, top) = if cx.quick() { (1100, 20_000) } else { (4200, 20_000) };
    let t4 = counts::sweep(counts::Which::C13, dense, top);
    t.count("large_count_sweep_programs", t4.programs);
    t.count("large_count_sweep_evaluations", t4.evaluations);
    t.merge(t4);
    finish(
        cx,
        t,
        Finish {
            rule: format!(
                "A: every pattern of {} is parsed (Expr::parse_tree), analysed (hook H2, same tree shape) and run through the all-paths span recorder of the reference matcher over every text over {:?} up to length {} and every start; for every sub-expression node: min(observed character lengths) >= min_size and const_size implies every observed length == min_size (observation is a lower approximation, so this cannot raise a false alarm). B: a pattern with a look-behind one of whose top-level alternatives shows two observed lengths must be rejected, with CompileError::LookBehindNotConst; a pattern rejected that way stays rejected when embedded in ten hosts, including hosts in which it can never run ({{0}} repeats, dead alternatives). C: every accepted look-behind pattern of the look-behind sub-spaces, differential against the reference over texts over [a,b,e-acute,euro] (characters, not bytes; fails rather than reading before the start). distinct_nontrivial = sub-expression nodes with >= 2 distinct observed lengths plus non-trivial differential cases; D: a {}",
                space.describe(), alphabet, max_len, counts::describe(counts::Which::C13, dense, top)
            ),
            exhaustive: true,
            bounds: jobj! {"space" => space.describe(), "max_text_len" => max_len, "node_bound" => k},
            assumptions: vec![
                "the parser's private expansion of \\Z (the opaque atom \\n*$ labelled size 0) is exempt; the enclosing \\Z node is checked".into(),
                "opaque one-character classes of the Expr tree are evaluated with the regex crate".into(),
            ],
            extra: vec![],
        },
    )
}
