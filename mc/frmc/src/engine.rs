//! Adapters around the real fancy-regex API: every call is wrapped in catch_unwind, results are
//! normalised into plain values.

use fancy_regex::{Regex, RegexBuilder};
use std::panic::{catch_unwind, AssertUnwindSafe};

pub type Groups = Vec<Option<(usize, usize)>>;

#[derive(Clone, Debug, PartialEq, Eq)]
pub enum Out {
    Match(Groups),
    NoMatch,
    /// runtime error kind ("BacktrackLimitExceeded", "StackOverflow", "FuelExhausted", other)
    Err(String),
    Panic(String),
}

impl Out {
    pub fn span(&self) -> Option<(usize, usize)> {
        match self {
            Out::Match(g) => g[0],
            _ => None,
        }
    }
    pub fn short(&self) -> String {
        match self {
            Out::Match(g) => format!("Match{:?}", g),
            Out::NoMatch => "NoMatch".into(),
            Out::Err(e) => format!("Err({})", e),
            Out::Panic(p) => format!("Panic({})", p),
        }
    }
}

pub fn panic_msg(p: Box<dyn std::any::Any + Send>) -> String {
    if let Some(s) = p.downcast_ref::<&str>() {
        s.to_string()
    } else if let Some(s) = p.downcast_ref::<String>() {
        s.clone()
    } else {
        "non-string panic".into()
    }
}

pub fn quiet_panics() {
    std::panic::set_hook(Box::new(|_| {}));
}

#[derive(Clone, Debug, PartialEq, Eq)]
pub enum CompileFail {
    Err(String),
    Panic(String),
}

pub fn err_kind(e: &fancy_regex::Error) -> String {
    use fancy_regex::{CompileError, Error, RuntimeError};
    match e {
        Error::ParseError(_, p) => format!("Parse:{:?}", p),
        Error::CompileError(CompileError::LookBehindNotConst) => "Compile:LookBehindNotConst".into(),
        Error::CompileError(CompileError::InnerError(_)) => "Compile:InnerError".into(),
        Error::CompileError(c) => format!("Compile:{:?}", c),
        Error::RuntimeError(RuntimeError::BacktrackLimitExceeded) => "BacktrackLimitExceeded".into(),
        Error::RuntimeError(RuntimeError::StackOverflow) => "StackOverflow".into(),
        other => format!("{:?}", other),
    }
}

pub fn compile(pattern: &str) -> Result<Regex, CompileFail> {
    match catch_unwind(AssertUnwindSafe(|| Regex::new(pattern))) {
        Ok(Ok(r)) => Ok(r),
        Ok(Err(e)) => Err(CompileFail::Err(err_kind(&e))),
        Err(p) => Err(CompileFail::Panic(panic_msg(p))),
    }
}

pub fn compile_with(pattern: &str, f: impl FnOnce(&mut RegexBuilder)) -> Result<Regex, CompileFail> {
    match catch_unwind(AssertUnwindSafe(|| {
        let mut b = RegexBuilder::new(pattern);
        f(&mut b);
        b.build()
    })) {
        Ok(Ok(r)) => Ok(r),
        Ok(Err(e)) => Err(CompileFail::Err(err_kind(&e))),
        Err(p) => Err(CompileFail::Panic(panic_msg(p))),
    }
}

fn caps_to_groups(c: &fancy_regex::Captures) -> Groups {
    (0..c.len()).map(|i| c.get(i).map(|m| (m.start(), m.end()))).collect()
}

fn runtime_err(e: &fancy_regex::Error, fuel_before: u64) -> Out {
    let st = fancy_regex::verif::stats();
    if st.fuel_exhausted > fuel_before {
        Out::Err("FuelExhausted".into())
    } else {
        Out::Err(err_kind(e))
    }
}

pub fn captures_at(re: &Regex, text: &str, pos: usize) -> Out {
    let fuel_before = fancy_regex::verif::stats().fuel_exhausted;
    match catch_unwind(AssertUnwindSafe(|| re.captures_from_pos(text, pos))) {
        Ok(Ok(Some(c))) => Out::Match(caps_to_groups(&c)),
        Ok(Ok(None)) => Out::NoMatch,
        Ok(Err(e)) => runtime_err(&e, fuel_before),
        Err(p) => Out::Panic(panic_msg(p)),
    }
}

pub fn find_at(re: &Regex, text: &str, pos: usize) -> Out {
    let fuel_before = fancy_regex::verif::stats().fuel_exhausted;
    match catch_unwind(AssertUnwindSafe(|| re.find_from_pos(text, pos))) {
        Ok(Ok(Some(m))) => Out::Match(vec![Some((m.start(), m.end()))]),
        Ok(Ok(None)) => Out::NoMatch,
        Ok(Err(e)) => runtime_err(&e, fuel_before),
        Err(p) => Out::Panic(panic_msg(p)),
    }
}

pub fn is_match(re: &Regex, text: &str) -> Result<bool, String> {
    let fuel_before = fancy_regex::verif::stats().fuel_exhausted;
    match catch_unwind(AssertUnwindSafe(|| re.is_match(text))) {
        Ok(Ok(b)) => Ok(b),
        Ok(Err(e)) => Err(runtime_err(&e, fuel_before).short()),
        Err(p) => Err(format!("Panic({})", panic_msg(p))),
    }
}

/// Drive an iterator to its end or to `horizon` items. An `Err` item ends the recording after it
/// is noted; `polls_after_end` further `next()` calls check fusedness.
#[derive(Clone, Debug, PartialEq, Eq)]
pub struct IterLog<T> {
    pub items: Vec<Result<T, String>>,
    /// the iterator yielded more than `horizon` items
    pub overran: bool,
    /// something other than None came back after the end (or after an Err)
    pub unfused: bool,
    pub panic: Option<String>,
}

pub fn drive<T, I: Iterator<Item = fancy_regex::Result<T>>>(mut it: I, horizon: usize, polls_after_end: usize) -> IterLog<T> {
    let mut log = IterLog { items: Vec::new(), overran: false, unfused: false, panic: None };
    let r = catch_unwind(AssertUnwindSafe(|| {
        loop {
            let fuel_before = fancy_regex::verif::stats().fuel_exhausted;
            match it.next() {
                None => break,
                Some(Ok(x)) => log.items.push(Ok(x)),
                Some(Err(e)) => {
                    let k = match runtime_err(&e, fuel_before) {
                        Out::Err(k) => k,
                        _ => unreachable!(),
                    };
                    log.items.push(Err(k));
                    break;
                }
            }
            if log.items.len() > horizon {
                log.overran = true;
                return;
            }
        }
        for _ in 0..polls_after_end {
            if it.next().is_some() {
                log.unfused = true;
            }
        }
    }));
    if let Err(p) = r {
        log.panic = Some(panic_msg(p));
    }
    log
}

pub fn find_iter_log(re: &Regex, text: &str) -> IterLog<(usize, usize)> {
    let horizon = text.len() + 2;
    drive(re.find_iter(text).map(|r| r.map(|m| (m.start(), m.end()))), horizon, 2)
}

pub fn captures_iter_log(re: &Regex, text: &str) -> IterLog<Groups> {
    let horizon = text.len() + 2;
    drive(re.captures_iter(text).map(|r| r.map(|c| caps_to_groups(&c))), horizon, 2)
}

/// (start, end) of every piece, computed from the returned slices' addresses
pub fn split_log(re: &Regex, text: &str) -> IterLog<(usize, usize)> {
    let base = text.as_ptr() as usize;
    let horizon = text.len() + 3;
    drive(
        re.split(text).map(move |r| r.map(|s| (s.as_ptr() as usize - base, s.as_ptr() as usize - base + s.len()))),
        horizon,
        2,
    )
}

/// Every item of split up to None, *continuing past Err items* (at most len + 6 items); None if it panics.
pub fn split_all(re: &Regex, text: &str) -> Option<Vec<Result<(usize, usize), String>>> {
    let base = text.as_ptr() as usize;
    catch_unwind(AssertUnwindSafe(|| {
        let mut out = Vec::new();
        for r in re.split(text).take(text.len() + 6) {
            out.push(match r {
                Ok(s) => Ok((s.as_ptr() as usize - base, s.as_ptr() as usize - base + s.len())),
                Err(e) => Err(err_kind(&e)),
            });
        }
        out
    }))
    .ok()
}

pub fn splitn_log(re: &Regex, text: &str, n: usize) -> IterLog<(usize, usize)> {
    let base = text.as_ptr() as usize;
    let horizon = text.len() + 3;
    drive(
        re.splitn(text, n).map(move |r| r.map(|s| (s.as_ptr() as usize - base, s.as_ptr() as usize - base + s.len()))),
        horizon,
        2,
    )
}

/// Is the regex compiled to a VM program (true) or handed to regex-automata as a whole (false)?
/// Also returns the number of Delegate instructions. Uses the public (doc-hidden) debug_print.
pub fn engine_class(re: &Regex) -> (bool, usize) {
    struct W<'a>(&'a Regex);
    impl<'a> std::fmt::Display for W<'a> {
        fn fmt(&self, f: &mut std::fmt::Formatter<'_>) -> std::fmt::Result {
            self.0.debug_print(f)
        }
    }
    let s = format!("{}", W(re));
    if s.starts_with("wrapped") {
        (false, 0)
    } else {
        (true, s.matches("Delegate {").count())
    }
}

pub fn program_text(re: &Regex) -> String {
    struct W<'a>(&'a Regex);
    impl<'a> std::fmt::Display for W<'a> {
        fn fmt(&self, f: &mut std::fmt::Formatter<'_>) -> std::fmt::Result {
            self.0.debug_print(f)
        }
    }
    format!("{}", W(re))
}

/// Horizons for sweeps: a looping run is cut after `fuel` instructions and reported as
/// Err("FuelExhausted"); the branch stack is capped so that StackOverflow comes quickly.
pub fn set_sweep_horizons(fuel: u64, max_stack: usize) {
    fancy_regex::verif::set_fuel(fuel);
    fancy_regex::verif::set_max_stack(max_stack);
}

/// Validate every span of a successful captures call and exercise `Match::as_str`, `range`, and
/// both `Index` impls (C05). Returns a description of the first problem.
pub fn validate_captures(re: &Regex, text: &str, pos: usize) -> Result<Out, String> {
    let fuel_before = fancy_regex::verif::stats().fuel_exhausted;
    let r = catch_unwind(AssertUnwindSafe(|| -> Result<Out, String> {
        match re.captures_from_pos(text, pos) {
            Ok(Some(c)) => {
                for i in 0..c.len() {
                    if let Some(m) = c.get(i) {
                        let (s, e) = (m.start(), m.end());
                        if !(s <= e && e <= text.len() && text.is_char_boundary(s) && text.is_char_boundary(e)) {
                            return Err(format!("group {} has invalid span ({}, {}) in a text of {} bytes", i, s, e, text.len()));
                        }
                        let a = m.as_str();
                        let idx: &str = &c[i];
                        if a != idx || m.range() != (s..e) {
                            return Err(format!("group {}: as_str / Index / range disagree", i));
                        }
                    }
                }
                if c.get(0).is_none() {
                    return Err("group 0 is None on a successful search".into());
                }
                Ok(Out::Match(caps_to_groups(&c)))
            }
            Ok(None) => Ok(Out::NoMatch),
            Err(e) => Ok(runtime_err(&e, fuel_before)),
        }
    }));
    match r {
        Ok(x) => x,
        Err(p) => Err(format!("panic: {}", panic_msg(p))),
    }
}

pub fn replacen_str(re: &Regex, text: &str, n: usize, rep: &str) -> Result<(String, bool), String> {
    match catch_unwind(AssertUnwindSafe(|| re.try_replacen(text, n, rep))) {
        Ok(Ok(c)) => {
            let borrowed = matches!(c, std::borrow::Cow::Borrowed(_));
            Ok((c.into_owned(), borrowed))
        }
        Ok(Err(e)) => Err(format!("Err({})", err_kind(&e))),
        Err(p) => Err(format!("Panic({})", panic_msg(p))),
    }
}

/// Every unbounded repeat of the pattern is interpreted by the VM itself: the regex is compiled
/// to a VM program and no Delegate instruction contains an unbounded quantifier. For such
/// patterns the reference matcher's cut of empty optional iterations is exactly the VM's rule.
pub fn vm_owns_loops(re: &Regex) -> bool {
    let t = program_text(re);
    if t.starts_with("wrapped") {
        return false;
    }
    t.lines().filter(|l| l.contains("Delegate")).all(|l| {
        let pat = l.split("pattern: ").nth(1).unwrap_or("");
        !(pat.contains('*') || pat.contains('+') || pat.contains(",}"))
    })
}
