//! Shared driver pieces: tiers, tallies, violation/known-finding reporting, evidence output.

use frmc_core::evidence::{self, Evidence};
use frmc_core::jobj;
use frmc_core::json::J;
use std::collections::BTreeMap;
use std::time::Instant;

#[derive(Clone, Copy, Debug, PartialEq, Eq)]
pub enum Tier {
    Quick,
    Thorough,
}

pub struct Ctx {
    pub prop: String,
    pub tier: Tier,
    pub seed: i64,
    pub t0: Instant,
}

impl Ctx {
    pub fn quick(&self) -> bool {
        self.tier == Tier::Quick
    }
    pub fn tier_name(&self) -> &'static str {
        match self.tier {
            Tier::Quick => "quick",
            Tier::Thorough => "thorough",
        }
    }
}

const KEEP: usize = 12;

/// Per-worker tally, merged at the end.
#[derive(Default)]
pub struct Tally {
    pub programs: u64,
    pub evaluations: u64,
    pub nontrivial: u64,
    pub counters: BTreeMap<String, u64>,
    /// (weight, case) smallest first, at most KEEP kept
    pub violations: Vec<(usize, J)>,
    pub n_violations: u64,
    /// finding id -> (attributed cases, first example)
    pub known: BTreeMap<String, (u64, Option<J>)>,
    pub samples: Vec<J>,
}

impl Tally {
    pub fn new() -> Tally {
        Tally::default()
    }
    pub fn count(&mut self, k: &str, n: u64) {
        *self.counters.entry(k.to_string()).or_insert(0) += n;
    }
    pub fn max(&mut self, k: &str, n: u64) {
        let e = self.counters.entry(k.to_string()).or_insert(0);
        if n > *e {
            *e = n;
        }
    }
    pub fn violation(&mut self, weight: usize, case: J) {
        self.n_violations += 1;
        if self.violations.len() < KEEP || weight < self.violations.last().map(|v| v.0).unwrap_or(usize::MAX) {
            self.violations.push((weight, case));
            self.violations.sort_by(|a, b| a.0.cmp(&b.0));
            self.violations.truncate(KEEP);
        }
    }
    pub fn known(&mut self, id: &str, example: impl FnOnce() -> J) {
        let e = self.known.entry(id.to_string()).or_insert((0, None));
        e.0 += 1;
        if e.1.is_none() {
            e.1 = Some(example());
        }
    }
    pub fn sample(&mut self, max: usize, s: impl FnOnce() -> J) {
        if self.samples.len() < max {
            self.samples.push(s());
        }
    }
    pub fn merge(&mut self, o: Tally) {
        self.programs += o.programs;
        self.evaluations += o.evaluations;
        self.nontrivial += o.nontrivial;
        for (k, v) in o.counters {
            if k.starts_with("max_") {
                let e = self.counters.entry(k).or_insert(0);
                if v > *e {
                    *e = v;
                }
            } else {
                *self.counters.entry(k).or_insert(0) += v;
            }
        }
        self.n_violations += o.n_violations;
        self.violations.extend(o.violations);
        self.violations.sort_by(|a, b| a.0.cmp(&b.0));
        self.violations.truncate(KEEP);
        for (k, (n, ex)) in o.known {
            let e = self.known.entry(k).or_insert((0, None));
            e.0 += n;
            if e.1.is_none() {
                e.1 = ex;
            }
        }
        for s in o.samples {
            if self.samples.len() < 8 {
                self.samples.push(s);
            }
        }
    }
    pub fn merge_all(v: Vec<Tally>) -> Tally {
        let mut t = Tally::new();
        for o in v {
            t.merge(o);
        }
        t
    }
}

/// The committed known-findings file.
pub struct KnownFindings {
    pub raw: J,
}

impl KnownFindings {
    pub fn load() -> KnownFindings {
        let path = evidence::verif_dir().join("known_findings.json");
        let raw = evidence::read_json(&path).unwrap_or_else(|_| jobj! {"findings" => Vec::<J>::new()});
        KnownFindings { raw }
    }
    /// Is finding `id` listed for property `prop`?
    pub fn lists(&self, id: &str, prop: &str) -> bool {
        self.finding(id)
            .and_then(|f| f.get("properties").and_then(|p| p.as_arr()).map(|a| a.iter().any(|x| x.as_str() == Some(prop))))
            .unwrap_or(false)
    }
    pub fn finding(&self, id: &str) -> Option<&J> {
        self.raw.get("findings").and_then(|f| f.as_arr()).and_then(|a| a.iter().find(|f| f.get("id").and_then(|i| i.as_str()) == Some(id)))
    }
    pub fn what(&self, id: &str) -> String {
        self.finding(id).map(|f| f.str_of("what")).unwrap_or_default()
    }
}

pub struct Finish {
    pub rule: String,
    pub exhaustive: bool,
    pub bounds: J,
    pub assumptions: Vec<String>,
    /// extra coverage keys (states, transitions, ...)
    pub extra: Vec<(String, J)>,
}

/// Print KNOWN-FINDING / VIOLATION lines, write replays and the evidence file; returns the exit code.
pub fn finish(cx: &Ctx, mut t: Tally, fin: Finish) -> i32 {
    let kf = KnownFindings::load();
    let mut exit = 0;
    // attributed cases whose finding is not listed for this property are violations
    let known = std::mem::take(&mut t.known);
    let mut known_out = BTreeMap::new();
    for (id, (n, ex)) in known {
        if kf.lists(&id, &cx.prop) {
            println!("KNOWN-FINDING: property={} {} cases={} {}", cx.prop, id, n, kf.what(&id));
            known_out.insert(id, jobj! {"cases" => n, "example" => ex.unwrap_or(J::Null)});
        } else {
            let mut case = ex.unwrap_or(J::Null);
            case.set("unlisted_finding", id.as_str());
            t.n_violations += n;
            t.violations.insert(0, (0, case));
        }
    }
    let mut written = Vec::new();
    for (_, case) in t.violations.iter().take(KEEP) {
        let mut c = case.clone();
        c.set("property", cx.prop.as_str());
        let p = evidence::write_replay(&cx.prop, &c);
        println!("VIOLATION property={} replay={}", cx.prop, p.display());
        if let Some(s) = c.get("summary").and_then(|s| s.as_str()) {
            println!("  {}", s);
        }
        written.push(J::from(p.display().to_string()));
        exit = 1;
    }
    if t.n_violations > 0 {
        exit = 1;
        println!("{}: {} violating cases in total ({} written as replays)", cx.prop, t.n_violations, written.len());
    }
    let mut cov = J::obj();
    cov.set("programs", t.programs);
    cov.set("evaluations", t.evaluations);
    cov.set("distinct_nontrivial", t.nontrivial);
    cov.set("rule", fin.rule.as_str());
    cov.set("exhaustive", fin.exhaustive);
    cov.set("bounds", fin.bounds);
    cov.set("samples", J::Arr(t.samples.clone()));
    let mut counters = J::obj();
    for (k, v) in &t.counters {
        counters.set(k, *v);
    }
    cov.set("counters", counters);
    cov.set("known_findings", J::Obj(known_out));
    cov.set("replays", J::Arr(written));
    // every enumerated case is executed on the real crate (there is no separate model whose
    // traces would need replaying)
    cov.set("traces_validated_against_impl", t.evaluations);
    for (k, v) in fin.extra {
        cov.set(&k, v);
    }
    let ev = Evidence {
        property_id: cx.prop.clone(),
        tier: cx.tier_name().to_string(),
        seed: cx.seed,
        coverage: cov,
        assumptions: fin.assumptions,
        wall_s: cx.t0.elapsed().as_secs_f64(),
        violations: t.n_violations,
        extra: vec![],
    };
    match ev.write() {
        Ok(p) => eprintln!(
            "{} {}: programs={} evaluations={} nontrivial={} violations={} wall={:.1}s evidence={}",
            cx.prop,
            cx.tier_name(),
            t.programs,
            t.evaluations,
            t.nontrivial,
            t.n_violations,
            cx.t0.elapsed().as_secs_f64(),
            p.display()
        ),
        Err(e) => {
            eprintln!("cannot write evidence: {}", e);
            return 2;
        }
    }
    exit
}

pub fn groups_json(g: &[Option<(usize, usize)>]) -> J {
    J::Arr(g.iter().map(|x| match x {
        Some((s, e)) => J::Arr(vec![J::from(*s), J::from(*e)]),
        None => J::Null,
    }).collect())
}
