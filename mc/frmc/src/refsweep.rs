//! The reference sweep shared by C01, C02, C15 (and the behavioural part of C13, the program
//! level part of C20): every pattern of a space x every text x every offset, real engine versus
//! the reference semantics.

use crate::common::*;
use crate::engine::{self, CompileFail, Out};
use crate::kf;
use crate::spaces::Space;
use frmc_core::ast::{self, Node};
use frmc_core::ir;
use frmc_core::jobj;
use frmc_core::json::J;
use frmc_core::par;
use frmc_core::refsem::{self, Outcome};
use frmc_core::space;

pub struct RefCfg {
    /// compare existence and overall span (C01)
    pub check_span: bool,
    /// compare groups >= 1 when both sides match with the same span (C02)
    pub check_groups: bool,
    /// also compare is_match at offset 0
    pub check_is_match: bool,
    /// only patterns whose references are scoped
    pub need_scoped: bool,
    /// only patterns with this predicate
    pub filter: Option<fn(&Node, &ast::Facts) -> bool>,
    /// switch the H5 shadow monitor on and report its verdicts (C20)
    pub shadow: bool,
    pub alphabet: Vec<char>,
    pub max_len: usize,
    /// explicit text list instead of all strings over the alphabet (the "tall" sweep)
    pub text_list: Option<Vec<String>>,
    /// search from offset 0 only
    pub offset0_only: bool,
    /// spell the groups `(?<a>..)`, `(?<b>..)` (names that collide with the literals of the space)
    pub letter_names: bool,
    /// run the engine on `(?i)P` and the reference on P with every letter of a literal or class
    /// replaced by the class of both cases
    pub casei: bool,
}

/// P with every cased character of a literal / class spelled in both cases (what `(?i)P` means)
pub fn both_cases(n: &Node) -> Node {
    fn swap(c: char) -> Option<char> {
        let l: Vec<char> = c.to_lowercase().collect();
        let u: Vec<char> = c.to_uppercase().collect();
        if l.len() == 1 && l[0] != c {
            Some(l[0])
        } else if u.len() == 1 && u[0] != c {
            Some(u[0])
        } else {
            None
        }
    }
    match n {
        Node::Lit(s) => ast::cat(
            s.chars()
                .map(|c| match swap(c) {
                    Some(o) => Node::Set(vec![c, o], false),
                    None => Node::Lit(c.to_string()),
                })
                .collect(),
        ),
        Node::Set(cs, neg) => {
            let mut v = cs.clone();
            for c in cs {
                if let Some(o) = swap(*c) {
                    if !v.contains(&o) {
                        v.push(o);
                    }
                }
            }
            Node::Set(v, *neg)
        }
        Node::Concat(v) => Node::Concat(v.iter().map(both_cases).collect()),
        Node::Alt(v) => Node::Alt(v.iter().map(both_cases).collect()),
        other => {
            let mut m = other.clone();
            let kids: Vec<Node> = other.children().iter().map(|c| both_cases(c)).collect();
            for (slot, kid) in m.children_mut().into_iter().zip(kids) {
                *slot = kid;
            }
            m
        }
    }
}

pub fn weight(pattern: &str, text: &str) -> usize {
    pattern.len() * 8 + text.len()
}

pub fn run(cx: &Ctx, space: &Space, cfg: &RefCfg) -> Tally {
    let texts = cfg.text_list.clone().unwrap_or_else(|| space::texts(&cfg.alphabet, cfg.max_len));
    let text_offsets: Vec<Vec<usize>> = texts.iter().map(|t| if cfg.offset0_only { vec![0] } else { space::offsets(t) }).collect();
    let prop = cx.prop.clone();
    let tallies = par::run_workers(64, |_w, claimer| {
        engine::quiet_panics();
        engine::set_sweep_horizons(40_000, 5_000);
        if cfg.shadow {
            fancy_regex::verif::set_shadow(true);
        }
        let mut t = Tally::new();
        space.for_each(claimer, &mut |node, tag| {
            let facts = ast::facts(node);
            if !facts.refs_valid {
                t.count("skipped_invalid_reference", 1);
                return;
            }
            if cfg.need_scoped && !facts.scoped {
                t.count("skipped_unscoped_reference", 1);
                return;
            }
            if let Some(f) = cfg.filter {
                if !f(node, &facts) {
                    return;
                }
            }
            if facts.n_groups >= refsem::MAXG {
                return;
            }
            if cfg.casei && node.any(&|n| matches!(n, Node::Raw(..) | Node::Flag(_) | Node::FlagGroup(..))) {
                return;
            }
            let pattern = if cfg.casei {
                format!("(?i){}", ast::to_pattern(node))
            } else if cfg.letter_names {
                ast::to_pattern_letter_names(node)
            } else {
                ast::to_pattern(node)
            };
            let folded;
            let node = if cfg.casei {
                folded = both_cases(node);
                &folded
            } else {
                node
            };
            let prog = match ir::from_ast(node) {
                Ok(p) => p,
                Err(ir::BuildError::LookBehindNotConst) => {
                    t.count("skipped_lookbehind_not_const", 1);
                    return;
                }
                Err(_) => {
                    t.count("skipped_unsupported", 1);
                    return;
                }
            };
            let re = match engine::compile(&pattern) {
                Ok(r) => r,
                Err(CompileFail::Err(k)) => {
                    t.count(&format!("compile_error:{}", k.split(':').next().unwrap_or("")), 1);
                    return;
                }
                Err(CompileFail::Panic(_)) => {
                    t.count("compile_panic(left to C06)", 1);
                    return;
                }
            };
            t.programs += 1;
            let (is_vm, _) = engine::engine_class(&re);
            if is_vm {
                t.count("programs_vm", 1);
            } else {
                t.count("programs_wrapped", 1);
            }
            // The reference cuts an empty optional iteration of an unbounded repeat exactly as the
            // VM's RepeatEpsilon instructions do (fail that iteration). So where every unbounded
            // repeat is interpreted by the VM itself - no Delegate instruction contains an
            // unbounded quantifier - the reference also defines the result of class-F1 cases.
            let vm_owns_loops = engine::vm_owns_loops(&re);
            if facts.f1 {
                t.count("programs_static_f1", 1);
            }
            t.count(&format!("space:{}", if tag.len() > 24 { "ctx" } else { tag }), 1);
            for (ti, text) in texts.iter().enumerate() {
                for &pos in &text_offsets[ti] {
                    let (expected, info) = refsem::search(&prog, text, pos, false);
                    t.evaluations += 1;
                    if matches!(expected, Outcome::Unknown) {
                        t.count("skipped_reference_fuel", 1);
                        continue;
                    }
                    if info.empty_iteration {
                        if !vm_owns_loops {
                            // outside the reference's domain (class F1, dynamic form)
                            t.count("skipped_f1_empty_iteration", 1);
                            continue;
                        }
                        t.count("compared_f1_cases_vm_rule", 1);
                    }
                    if cfg.shadow {
                        fancy_regex::verif::reset_stats();
                    }
                    let got = engine::captures_at(&re, text, pos);
                    if cfg.shadow {
                        let st = fancy_regex::verif::stats();
                        t.count("shadow_checks", st.shadow_checks);
                        if st.shadow_violations > 0 {
                            let msg = fancy_regex::verif::shadow_message().unwrap_or_default();
                            t.violation(
                                weight(&pattern, text),
                                jobj! {"kind" => "shadow", "pattern" => pattern.as_str(), "text" => text.as_str(), "pos" => pos,
                                "summary" => format!("shadow monitor: /{}/ on {:?} at {}: {}", pattern, text, pos, msg)},
                            );
                        }
                        if is_vm && st.backtracks > 0 {
                            t.nontrivial += 1;
                        }
                        continue;
                    }
                    let nontrivial = is_vm && (matches!(expected, Outcome::Match(_)) || info.starts_tried > 1);
                    if nontrivial {
                        t.nontrivial += 1;
                    }
                    // The instruction fuel is the harness's own horizon, not an answer of the
                    // engine: a run that exhausts it is a C01-type divergence only if the
                    // reference exploration was small (the run "ran away"); exponential patterns
                    // on long texts legitimately need more than the horizon and are skipped.
                    if matches!(&got, Out::Err(e) if e == "FuelExhausted") && info.steps > 2_000 {
                        t.count("skipped_engine_fuel_horizon(reference exploration not small)", 1);
                        continue;
                    }
                    let agree = |got: &Out| -> bool { agrees(cfg, &expected, got) };
                    let mut ok = agree(&got);
                    let mut what = "captures_from_pos";
                    if ok && cfg.check_is_match && pos == 0 {
                        if let Ok(b) = engine::is_match(&re, text) {
                            if b != matches!(expected, Outcome::Match(_)) {
                                ok = false;
                                what = "is_match";
                            }
                        }
                    }
                    if ok {
                        if nontrivial {
                            t.sample(6, || jobj! {"pattern" => pattern.as_str(), "text" => text.as_str(), "pos" => pos, "result" => got.short(), "space" => tag});
                        }
                        continue;
                    }
                    // divergence: attribute or report
                    if facts.f1 && is_vm && !vm_owns_loops {
                        t.known(kf::KF_F1, || {
                            jobj! {"pattern" => pattern.as_str(), "text" => text.as_str(), "pos" => pos, "expected" => outcome_json(&expected), "observed" => got.short()}
                        });
                        continue;
                    }
                    t.violation(
                        weight(&pattern, text),
                        jobj! {
                            "kind" => "refsweep", "api" => what, "pattern" => pattern.as_str(), "text" => text.as_str(), "pos" => pos,
                            "expected" => outcome_json(&expected), "observed" => got.short(), "space" => tag,
                            "check_span" => cfg.check_span, "check_groups" => cfg.check_groups,
                            "summary" => format!("/{}/ on {:?} from {}: reference {} engine {} ({})", pattern, text, pos, outcome_short(&expected), got.short(), what),
                        },
                    );
                }
            }
        });
        let _ = &prop;
        t
    });
    Tally::merge_all(tallies)
}

pub fn outcome_short(o: &Outcome) -> String {
    match o {
        Outcome::Match(f) => format!("Match{:?}", f.groups),
        Outcome::NoMatch => "NoMatch".into(),
        Outcome::Unknown => "Unknown".into(),
    }
}

pub fn outcome_json(o: &Outcome) -> J {
    match o {
        Outcome::Match(f) => groups_json(&f.groups),
        Outcome::NoMatch => J::from("NoMatch"),
        Outcome::Unknown => J::from("Unknown"),
    }
}

pub fn agrees(cfg: &RefCfg, expected: &Outcome, got: &Out) -> bool {
    match (expected, got) {
        (Outcome::NoMatch, Out::NoMatch) => true,
        // an Err where the reference has no match is left to C07; a panic to C05
        (Outcome::NoMatch, Out::Err(_)) => true,
        (_, Out::Panic(_)) => true,
        (Outcome::Match(f), Out::Match(g)) => {
            if f.groups[0] != g[0] {
                return !cfg.check_span;
            }
            if cfg.check_groups {
                // every group >= 1, and the engine must report exactly n_groups+1 entries
                if g.len() != f.groups.len() {
                    return false;
                }
                return f.groups[1..] == g[1..];
            }
            true
        }
        (Outcome::Match(_), Out::NoMatch) | (Outcome::NoMatch, Out::Match(_)) => !cfg.check_span,
        (Outcome::Match(_), Out::Err(_)) => !cfg.check_span,
        (Outcome::Unknown, _) => true,
    }
}

/// Re-execute one recorded case (no explorer).
pub fn replay(case: &J) -> i32 {
    let pattern = case.str_of("pattern");
    let text = case.str_of("text");
    let pos = case.int_of("pos") as usize;
    engine::quiet_panics();
    engine::set_sweep_horizons(40_000, 5_000);
    let re = match engine::compile(&pattern) {
        Ok(r) => r,
        Err(e) => {
            println!("pattern does not compile: {:?}", e);
            return 2;
        }
    };
    let got = engine::captures_at(&re, &text, pos);
    println!("pattern: {}\ntext: {:?} pos: {}\nrecorded expected: {}\nrecorded observed: {}\nobserved now:      {}", pattern, text, pos,
        case.get("expected").map(|e| e.to_string_compact()).unwrap_or_default(), case.str_of("observed"), got.short());
    if got.short() == case.str_of("observed") {
        println!("REPRODUCED");
        1
    } else {
        println!("not reproduced");
        0
    }
}

/// Long, regular texts for the "tall" sweep: many loop iterations, long undo logs.
pub fn tall_texts(max_n: usize) -> Vec<String> {
    let mut v = Vec::new();
    let mut n = 6;
    while n <= max_n {
        v.push("a".repeat(n));
        v.push(format!("{}b", "a".repeat(n)));
        v.push(format!("b{}", "a".repeat(n)));
        v.push("ab".repeat(n / 2));
        v.push(format!("{}é", "a".repeat(n)));
        n += if n < 24 { 1 } else { 8 };
    }
    v
}
