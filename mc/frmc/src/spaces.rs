//! Unions of finite pattern spaces, enumerated deterministically and sharded over workers.

use frmc_core::ast::Node;
use frmc_core::par::Claimer;
use frmc_core::space::{self, Context, Enumerator, Grammar};

pub enum Sub {
    /// every AST with at most k nodes over the grammar
    Exh { name: String, e: Enumerator, k: usize },
    /// contexts x fillers
    CtxFill { ctxs: Vec<Context>, fill: Vec<Node>, fill2: Vec<Node> },
    /// an explicit list
    List { name: String, items: Vec<Node> },
}

pub struct Space {
    pub subs: Vec<Sub>,
}

impl Space {
    pub fn new() -> Space {
        Space { subs: Vec::new() }
    }
    pub fn exh(mut self, name: &str, g: Grammar, k: usize) -> Space {
        let mut e = Enumerator::new(g);
        if k >= 1 {
            e.materialise(k - 1);
        }
        self.subs.push(Sub::Exh { name: name.to_string(), e, k });
        self
    }
    pub fn ctxfill(mut self, fill_k: usize, fill2_k: usize, filter: &dyn Fn(&Context) -> bool) -> Space {
        let ctxs: Vec<Context> = space::contexts().into_iter().filter(|c| filter(c)).collect();
        self.subs.push(Sub::CtxFill { ctxs, fill: space::fillers(fill_k), fill2: space::fillers(fill2_k) });
        self
    }
    pub fn list(mut self, name: &str, items: Vec<Node>) -> Space {
        self.subs.push(Sub::List { name: name.to_string(), items });
        self
    }

    pub fn describe(&self) -> String {
        self.subs
            .iter()
            .map(|s| match s {
                Sub::Exh { name, k, e } => format!("EXH({}, k<={}, {} atoms, {} unary ops)", name, k, e.g.atoms.len(), e.g.unary.len()),
                Sub::CtxFill { ctxs, fill, fill2 } => format!("CTXxFILL({} contexts x {} fillers x {} second-hole fillers)", ctxs.len(), fill.len(), fill2.len()),
                Sub::List { name, items } => format!("LIST({}, {})", name, items.len()),
            })
            .collect::<Vec<_>>()
            .join(" + ")
    }

    /// Enumerate everything; `f` is called for the items this worker claims.
    pub fn for_each(&self, claimer: &mut Claimer, f: &mut dyn FnMut(&Node, &str)) {
        let mut idx = 0usize;
        for s in &self.subs {
            match s {
                Sub::Exh { name, e, k } => {
                    for n in 1..=*k {
                        e.for_each_of_size(n, &mut |node| {
                            if claimer.is_mine(idx) {
                                f(&node, name);
                            }
                            idx += 1;
                        });
                    }
                }
                Sub::CtxFill { ctxs, fill, fill2 } => {
                    for c in ctxs {
                        if c.holes == 1 {
                            for a in fill {
                                if claimer.is_mine(idx) {
                                    f(&c.node.fill(&[a]), c.name);
                                }
                                idx += 1;
                            }
                        } else {
                            for a in fill {
                                for b in fill2 {
                                    if claimer.is_mine(idx) {
                                        f(&c.node.fill(&[a, b]), c.name);
                                    }
                                    idx += 1;
                                }
                            }
                        }
                    }
                }
                Sub::List { name, items } => {
                    for n in items {
                        if claimer.is_mine(idx) {
                            f(n, name);
                        }
                        idx += 1;
                    }
                }
            }
        }
    }
}

pub fn sigma4() -> Vec<char> {
    vec!['a', 'b', 'é', '\n']
}
pub fn sigma6() -> Vec<char> {
    vec!['a', 'b', 'c', 'é', '\n', '-']
}
