//! Second front-end of the reference matcher: from `fancy_regex::Expr` (public enum obtained from
//! the public `Expr::parse_tree`). Used by C13 only, where node identity with the analysis tree
//! (hook H2, same shape) matters.

use fancy_regex::{Assertion, Expr, LookAround};
use frmc_core::ast::A;
use frmc_core::ir::{BuildError, CharPred, Id, Ir, Prog};

/// For every Expr node in preorder: its IR id (None for nodes exempt from the facts check).
pub struct ExprProg {
    pub prog: Prog,
    pub preorder: Vec<Option<Id>>,
}

pub fn from_expr(e: &Expr) -> Result<ExprProg, BuildError> {
    let mut p = Prog::default();
    p.lenient = true;
    let mut pre = Vec::new();
    let mut ng = 0usize;
    let root = build(e, &mut p, &mut ng, &mut pre)?;
    p.root = root;
    p.n_groups = ng;
    Ok(ExprProg { prog: p, preorder: pre })
}

fn opaque_char(inner: &str, casei: bool) -> Result<CharPred, BuildError> {
    let pat = if casei { format!("^(?i:{})$", inner) } else { format!("^(?:{})$", inner) };
    regex::Regex::new(&pat).map(CharPred::Opaque).map_err(|_| BuildError::Unsupported("opaque class"))
}

fn build(e: &Expr, p: &mut Prog, ng: &mut usize, pre: &mut Vec<Option<Id>>) -> Result<Id, BuildError> {
    let my = pre.len();
    pre.push(None);
    let mut exempt = false;
    let id = match e {
        Expr::Empty => p.add(Ir::Empty),
        Expr::Any { newline: true } => p.add(Ir::Char(CharPred::Any)),
        Expr::Any { newline: false } => p.add(Ir::Char(CharPred::AnyNoNl)),
        Expr::Assertion(a) => p.add(Ir::Assert(match a {
            Assertion::StartText => A::Start,
            Assertion::EndText => A::End,
            Assertion::StartLine { crlf: false } => A::StartLine,
            Assertion::EndLine { crlf: false } => A::EndLine,
            Assertion::WordBoundary => A::WordB,
            Assertion::NotWordBoundary => A::NotWordB,
            _ => return Err(BuildError::Unsupported("assertion")),
        })),
        Expr::Literal { val, casei } => {
            if *casei {
                return Err(BuildError::Unsupported("case-insensitive literal"));
            }
            let ids: Vec<Id> = val.chars().map(|c| p.add(Ir::Char(CharPred::Lit(c)))).collect();
            if ids.len() == 1 {
                ids[0]
            } else {
                p.add(Ir::Concat(ids))
            }
        }
        Expr::Concat(v) => {
            let mut ids = Vec::new();
            for c in v {
                ids.push(build(c, p, ng, pre)?);
            }
            p.add(Ir::Concat(ids))
        }
        Expr::Alt(v) => {
            let mut ids = Vec::new();
            for c in v {
                ids.push(build(c, p, ng, pre)?);
            }
            p.add(Ir::Alt(ids))
        }
        Expr::Group(c) => {
            *ng += 1;
            let g = *ng;
            let c = build(c, p, ng, pre)?;
            p.add(Ir::Group(g, c))
        }
        Expr::LookAround(c, la) => {
            let c = build(c, p, ng, pre)?;
            match la {
                LookAround::LookAhead => p.add(Ir::LookAhead { neg: false, body: c }),
                LookAround::LookAheadNeg => p.add(Ir::LookAhead { neg: true, body: c }),
                LookAround::LookBehind => p.make_lookbehind(false, c, true)?,
                LookAround::LookBehindNeg => p.make_lookbehind(true, c, true)?,
            }
        }
        Expr::Repeat { child, lo, hi, greedy } => {
            let c = build(child, p, ng, pre)?;
            if *lo > 1000 || (*hi != usize::MAX && *hi > 1000) {
                return Err(BuildError::Unsupported("huge repeat"));
            }
            p.add(Ir::Repeat { child: c, lo: *lo as u32, hi: if *hi == usize::MAX { None } else { Some(*hi as u32) }, greedy: *greedy })
        }
        Expr::Delegate { inner, size, casei } => {
            if *size == 1 {
                p.add(Ir::Char(opaque_char(inner, *casei)?))
            } else {
                // the parser's private expansion of \Z: `\n*$` labelled "size 0"; not a
                // sub-expression the user wrote (DESIGN §5 C13 scope note)
                exempt = true;
                let re = regex::Regex::new(&format!("\\A(?:{})", inner)).map_err(|_| BuildError::Unsupported("opaque suffix"))?;
                p.add(Ir::OpaqueSuffix(re))
            }
        }
        Expr::Backref(g) => p.add(Ir::Backref(*g)),
        Expr::AtomicGroup(c) => {
            let c = build(c, p, ng, pre)?;
            p.add(Ir::Atomic(c))
        }
        Expr::KeepOut => p.add(Ir::KeepOut),
        Expr::ContinueFromPreviousMatchEnd => p.add(Ir::ContG),
        Expr::BackrefExistsCondition(g) => p.add(Ir::CondExists(*g)),
        Expr::Conditional { condition, true_branch, false_branch } => {
            // `(?(N)yes|no)` has a BackrefExistsCondition as its condition
            let c = build(condition, p, ng, pre)?;
            let y = build(true_branch, p, ng, pre)?;
            let n = build(false_branch, p, ng, pre)?;
            p.add(Ir::Cond { cond: c, yes: y, no: n })
        }
        Expr::SubroutineCall(_) => return Err(BuildError::Unsupported("subroutine call")),
    };
    pre[my] = if exempt { None } else { Some(id) };
    Ok(id)
}
