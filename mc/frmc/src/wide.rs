//! "Wide" sweep: many capture groups in one backtrack frame.
//!
//! The small pattern spaces have at most five capture groups, so the VM's per-frame undo log never
//! holds more than about ten slots and slot numbers stay below a dozen. Defects that depend on the
//! *number* of slots (a scan window, an inline buffer that spills to the heap, a bit mask in which
//! slot k and slot k+64 share a bit) cannot show there. This sweep takes every pattern P of a space
//! and every capture group G of P and inserts k empty groups `()` directly in front of G (k = 4, 8,
//! 16, 32): the new groups are opened and closed in the same frame as G, shift every later group by
//! k and move G's slots to 2(j+k). The oracle is metamorphic and needs no reference matcher:
//!
//! * every group of P keeps its result (under its new number), and the overall span is the same;
//! * the k inserted groups are adjacent, nothing can fail between them, so they are all equal, and
//!   each is either unset or an empty span.

use crate::common::*;
use crate::engine::{self, Out};
use crate::spaces::Space;
use frmc_core::ast::{self, Node};
use frmc_core::jobj;
use frmc_core::par;
use frmc_core::space;

#[derive(Clone, Copy, PartialEq, Eq)]
pub enum Mode {
    /// C02: groups of the widened pattern against the groups of the original
    Groups,
    /// C05: every reported span of the widened pattern is valid
    Spans,
    /// C20: the H5 shadow monitor during the runs of the widened pattern
    Shadow,
}

pub const KS: &[usize] = &[4, 8, 16, 32];

fn shift_refs(n: &mut Node, from: usize, k: usize) {
    match n {
        Node::Backref(g) | Node::CondExists(g) | Node::CondGroup(g, ..) => {
            if *g as usize >= from {
                *g = (*g as usize + k) as u8;
            }
        }
        _ => {}
    }
    for c in n.children_mut() {
        shift_refs(c, from, k);
    }
}

/// Replace the `target`-th group (1-based, in opening order) by `()`{k} followed by the group.
fn insert(n: &Node, target: usize, k: usize, seen: &mut usize) -> Node {
    if let Node::Group(c) = n {
        *seen += 1;
        let me = *seen;
        let inner = insert(c, target, k, seen);
        let g = Node::Group(Box::new(inner));
        if me == target {
            let mut v: Vec<Node> = (0..k).map(|_| Node::Group(Box::new(Node::Empty))).collect();
            v.push(g);
            return Node::Concat(v);
        }
        return g;
    }
    match n {
        Node::Concat(v) => Node::Concat(v.iter().map(|c| insert(c, target, k, seen)).collect()),
        Node::Alt(v) => Node::Alt(v.iter().map(|c| insert(c, target, k, seen)).collect()),
        other => {
            let mut m = other.clone();
            // children in opening order
            let kids: Vec<Node> = other.children().iter().map(|c| insert(c, target, k, seen)).collect();
            for (slot, kid) in m.children_mut().into_iter().zip(kids) {
                *slot = kid;
            }
            m
        }
    }
}

pub fn widen(p: &Node, target: usize, k: usize) -> Node {
    let mut seen = 0;
    let mut w = insert(p, target, k, &mut seen);
    shift_refs(&mut w, target, k);
    w
}

pub fn describe(space: &Space, max_len: usize) -> String {
    format!(
        "wide sweep: every pattern P of {} with at least one capture group x every group G of P x k in {:?}: k empty groups inserted directly in front of G (same backtrack frame; later groups and references renumbered), every text over [a,b] up to length {} x every offset; oracle (metamorphic): same overall span, every original group unchanged under its new number, the k inserted groups all equal and unset or empty",
        space.describe(),
        KS,
        max_len
    )
}

pub fn wide_space(quick: bool) -> Space {
    Space::new().exh("core", space::fancy_grammar(space::core_atoms()), 4).ctxfill(if quick { 2 } else { 3 }, 1, &|_| true)
}

pub fn sweep(space: &Space, mode: Mode, max_len: usize) -> Tally {
    let texts = space::texts(&['a', 'b'], max_len);
    let tallies = par::run_workers(16, |_w, claimer| {
        engine::quiet_panics();
        engine::set_sweep_horizons(40_000, 5_000);
        if mode == Mode::Shadow {
            fancy_regex::verif::set_shadow(true);
        }
        let mut t = Tally::new();
        space.for_each(claimer, &mut |node, _tag| {
            let facts = ast::facts(node);
            if !facts.refs_valid || facts.n_groups == 0 || facts.n_groups > 6 {
                return;
            }
            let pattern = ast::to_pattern(node);
            let narrow = match engine::compile(&pattern) {
                Ok(r) => r,
                Err(_) => return,
            };
            for target in 1..=facts.n_groups {
                for &k in KS {
                    let w = widen(node, target, k);
                    let wp = ast::to_pattern(&w);
                    let wide = match engine::compile(&wp) {
                        Ok(r) => r,
                        Err(_) => {
                            t.count("wide_compile_errors(skipped)", 1);
                            continue;
                        }
                    };
                    t.programs += 1;
                    let (is_vm, _) = engine::engine_class(&wide);
                    if is_vm {
                        t.count("wide_programs_vm", 1);
                    }
                    for text in &texts {
                        for pos in space::offsets(text) {
                            t.evaluations += 1;
                            match mode {
                                Mode::Shadow => {
                                    fancy_regex::verif::reset_stats();
                                    let _ = engine::captures_at(&wide, text, pos);
                                    let st = fancy_regex::verif::stats();
                                    t.count("shadow_checks", st.shadow_checks);
                                    if st.backtracks > 0 {
                                        t.nontrivial += 1;
                                    }
                                    if st.shadow_violations > 0 {
                                        let msg = fancy_regex::verif::shadow_message().unwrap_or_default();
                                        t.violation(
                                            wp.len() * 8 + text.len(),
                                            jobj! {"kind" => "shadow", "pattern" => wp.as_str(), "text" => text.as_str(), "pos" => pos,
                                            "summary" => format!("shadow monitor: /{}/ on {:?} at {}: {}", wp, text, pos, msg)},
                                        );
                                    }
                                }
                                Mode::Spans => {
                                    match engine::validate_captures(&wide, text, pos) {
                                        Ok(Out::Match(_)) => t.nontrivial += 1,
                                        Ok(_) => {}
                                        Err(what) => t.violation(
                                            wp.len() * 8 + text.len(),
                                            jobj! {"kind" => "wide", "pattern" => wp.as_str(), "text" => text.as_str(), "pos" => pos, "observed" => what.as_str(),
                                            "summary" => format!("/{}/ on {:?} (pos {}): {}", wp, text, pos, what)},
                                        ),
                                    }
                                }
                                Mode::Groups => {
                                    let a = engine::captures_at(&narrow, text, pos);
                                    let b = engine::captures_at(&wide, text, pos);
                                    let problem = match (&a, &b) {
                                        (Out::Err(_), _) | (_, Out::Err(_)) | (Out::Panic(_), _) | (_, Out::Panic(_)) => None,
                                        (Out::NoMatch, Out::NoMatch) => None,
                                        (Out::Match(g), Out::Match(h)) => {
                                            t.nontrivial += 1;
                                            if g.len() != facts.n_groups + 1 {
                                                // the original pattern already reports a wrong number of groups: C16's subject
                                                None
                                            } else if h.len() != g.len() + k {
                                                Some(format!("{} groups reported, expected {}", h.len(), g.len() + k))
                                            } else {
                                                let mut p = None;
                                                for i in 0..g.len() {
                                                    let j = if i >= target { i + k } else { i };
                                                    if g[i] != h[j] {
                                                        p = Some(format!("group {} is {:?} but the same group (number {}) of the original pattern /{}/ is {:?}", j, h[j], i, pattern, g[i]));
                                                        break;
                                                    }
                                                }
                                                if p.is_none() {
                                                    let first = h[target];
                                                    for j in target..target + k {
                                                        if h[j] != first || matches!(h[j], Some((s, e)) if s != e) {
                                                            p = Some(format!("inserted empty group {} is {:?} (first inserted group: {:?})", j, h[j], first));
                                                            break;
                                                        }
                                                    }
                                                }
                                                p
                                            }
                                        }
                                        _ => Some(format!("the original pattern /{}/ gives {}", pattern, a.short())),
                                    };
                                    if let Some(p) = problem {
                                        // class F1 (an unbounded repeat whose body can match the empty string): the
                                        // inserted groups move the boundary between the VM and the automata engine,
                                        // whose empty-iteration rules differ - the known finding KF-F1, attributed as
                                        // narrowly as in the reference sweeps (one side leaves such a loop to a delegate)
                                        if facts.f1 && (!engine::vm_owns_loops(&narrow) || !engine::vm_owns_loops(&wide)) {
                                            t.known(crate::kf::KF_F1, || jobj! {"pattern" => wp.as_str(), "variant" => pattern.as_str(), "text" => text.as_str(), "pos" => pos, "observed" => b.short()});
                                            continue;
                                        }
                                        t.violation(
                                            wp.len() * 8 + text.len(),
                                            jobj! {"kind" => "wide", "pattern" => wp.as_str(), "variant" => pattern.as_str(), "text" => text.as_str(), "pos" => pos, "observed" => b.short(),
                                            "summary" => format!("/{}/ on {:?} from {}: {} - {}", wp, text, pos, b.short(), p)},
                                        );
                                    }
                                }
                            }
                        }
                    }
                }
            }
        });
        t
    });
    Tally::merge_all(tallies)
}

/// Frames at the edges of the integer widths an undo count or a slot number might be stored in:
/// `(?:(?=a)(a){k groups}(?:b|(?=c)c)x|a+)(?!y)` on a^k b writes 2k slots between two pushes, then
/// abandons the whole alternative (two pops) and matches `a+`. By construction the overall match is
/// 0..k and every group is unset - the oracle needs no engine and no reference matcher.
pub fn width_edges(ks: &[usize]) -> Tally {
    let ks = ks.to_vec();
    let tallies = par::run_workers(1, |_w, claimer| {
        engine::quiet_panics();
        let mut t = Tally::new();
        for (i, &k) in ks.iter().enumerate() {
            if !claimer.is_mine(i) {
                continue;
            }
            let pattern = format!("(?:(?=a){}(?:b|(?=c)c)x|a+)(?!y)", "(a)".repeat(k));
            let text = format!("{}b", "a".repeat(k));
            let short = format!("(?:(?=a)(a){{x{}}}(?:b|(?=c)c)x|a+)(?!y)", k);
            let re = match engine::compile(&pattern) {
                Ok(r) => r,
                Err(_) => {
                    t.count("width_edge_patterns_rejected", 1);
                    continue;
                }
            };
            t.programs += 1;
            t.evaluations += 1;
            let mut viol = |t: &mut Tally, what: String| {
                t.violation(
                    k,
                    jobj! {"kind" => "width-edges", "pattern" => short.as_str(), "text" => format!("a x{} b", k), "pos" => 0usize, "observed" => what.as_str(),
                    "summary" => format!("/{}/ on a^{}b: {}", short, k, what)},
                );
            };
            match engine::captures_at(&re, &text, 0) {
                Out::Match(g) => {
                    t.nontrivial += 1;
                    if g.first().copied().flatten() != Some((0, k)) {
                        viol(&mut t, format!("overall match {:?}, expected (0, {})", g.first(), k));
                    } else if g.len() != k + 1 {
                        viol(&mut t, format!("{} groups reported, expected {}", g.len(), k + 1));
                    } else if let Some(j) = (1..g.len()).find(|&j| g[j].is_some()) {
                        viol(&mut t, format!("group {} = {:?} after its alternative was abandoned (expected unset)", j, g[j]));
                    }
                }
                other => viol(&mut t, format!("{} (expected a match 0..{})", other.short(), k)),
            }
        }
        t
    });
    Tally::merge_all(tallies)
}
