//! Case-insensitive matching of every cased character.
//!
//! The pattern spaces use the letters a, b, A, B and e-acute. Whether a literal is matched
//! case-insensitively is decided in three places (the parser's `casei` flag on literals, the VM's
//! own literal comparison, the `(?i:..)` wrapper of delegated pieces), and a slip in any of them
//! shows only for particular characters (non-ASCII letters, the 31 titlecase letters, characters
//! whose fold orbit has three members such as K / k / KELVIN SIGN). This sweep enumerates **every
//! Unicode scalar value whose lower- or upper-case mapping differs from itself** and, for each, every
//! member of its fold orbit as the text.

use crate::common::*;
use crate::engine::{self, Out};
use frmc_core::jobj;
use frmc_core::par;
use std::collections::BTreeMap;

#[derive(Clone, Copy, PartialEq, Eq, Debug)]
pub enum Which {
    /// plain spelling against a spelling with an injected `(?=)`
    C03,
    /// common syntax against the regex crate
    C04,
    /// RegexBuilder::case_insensitive(true) against the inline flag
    C14,
}

fn single(mut it: impl Iterator<Item = char>) -> Option<char> {
    let c = it.next()?;
    if it.next().is_some() {
        None
    } else {
        Some(c)
    }
}

/// cased characters grouped into (approximate) fold orbits: characters with the same simple
/// lower-case mapping of their upper-case mapping. Used only to choose texts; the oracle is the
/// regex crate or another spelling run on the same text, never this table.
pub fn orbits() -> Vec<Vec<char>> {
    let mut m: BTreeMap<char, Vec<char>> = BTreeMap::new();
    for cp in 0..=0x10FFFFu32 {
        let c = match char::from_u32(cp) {
            Some(c) => c,
            None => continue,
        };
        let lo = single(c.to_lowercase());
        let up = single(c.to_uppercase());
        if lo == Some(c) && up == Some(c) {
            continue;
        }
        let key = up.and_then(|u| single(u.to_lowercase())).or(lo).unwrap_or(c);
        m.entry(key).or_default().push(c);
        // the key itself belongs to the orbit
        let e = m.entry(key).or_default();
        if !e.contains(&key) {
            e.push(key);
        }
    }
    m.into_values().collect()
}

fn hex(c: char) -> String {
    format!("\\x{{{:X}}}", c as u32)
}

pub fn describe(which: Which) -> String {
    let o = orbits();
    let n: usize = o.iter().map(|v| v.len()).sum();
    format!(
        "case-folding sweep: every Unicode scalar value with a non-trivial case mapping ({} characters in {} fold orbits) as a one-character pattern under case-insensitivity, spelled literally and as \\x{{..}}, alone, in a class, next to \\b (interpreted by the VM) and next to a look-ahead, on every member of its orbit as the text; oracle: {}",
        n,
        o.len(),
        match which {
            Which::C03 => "the spelling with an injected (?=) gives the same result as the plain spelling",
            Which::C04 => "the regex crate on the identical pattern",
            Which::C14 => "RegexBuilder::case_insensitive(true) on P gives the same result as (?i)P",
        }
    )
}

pub fn sweep(which: Which) -> Tally {
    let orbits = orbits();
    let tallies = par::run_workers(4, |_w, claimer| {
        engine::quiet_panics();
        engine::set_sweep_horizons(40_000, 5_000);
        let mut t = Tally::new();
        for (i, orbit) in orbits.iter().enumerate() {
            if !claimer.is_mine(i) {
                continue;
            }
            for &c in orbit {
                let lit = regex::escape(&c.to_string());
                let spellings = [lit.clone(), hex(c)];
                for sp in &spellings {
                    match which {
                        Which::C04 => {
                            for pattern in [format!("(?i){}", sp), format!("(?i){}\\b", sp), format!("(?i)[{}]", sp), format!("(?i:{})x|{}y", sp, sp), format!("\\b(?i){}+", sp)] {
                                let rx = match regex::Regex::new(&pattern) {
                                    Ok(r) => r,
                                    Err(_) => continue,
                                };
                                let re = match engine::compile(&pattern) {
                                    Ok(r) => r,
                                    Err(e) => {
                                        t.violation(pattern.len(), jobj! {"kind" => "casefold", "pattern" => pattern.as_str(), "text" => "", "pos" => 0usize, "observed" => format!("{:?}", e), "summary" => format!("/{}/ is accepted by the regex crate but not by fancy-regex: {:?}", pattern, e)});
                                        continue;
                                    }
                                };
                                t.programs += 1;
                                for &d in orbit {
                                    for text in [d.to_string(), format!("{}x", d), format!("{}y", d)] {
                                        t.evaluations += 1;
                                        let e = rx.find(&text).map(|m| (m.start(), m.end()));
                                        let g = engine::find_at(&re, &text, 0);
                                        if e.is_some() {
                                            t.nontrivial += 1;
                                        }
                                        if let Ok(im) = engine::is_match(&re, &text) {
                                            if im != e.is_some() {
                                                t.violation(
                                                    pattern.len() * 8 + text.len(),
                                                    jobj! {"kind" => "casefold", "pattern" => pattern.as_str(), "text" => text.as_str(), "pos" => 0usize, "observed" => format!("Ok({})", im),
                                                    "summary" => format!("/{}/ on {:?}: is_match = {}, the regex crate finds {:?}", pattern, text, im, e)},
                                                );
                                            }
                                        }
                                        if g.span() != e && !matches!(g, Out::Err(_) | Out::Panic(_)) {
                                            t.violation(
                                                pattern.len() * 8 + text.len(),
                                                jobj! {"kind" => "casefold", "pattern" => pattern.as_str(), "text" => text.as_str(), "pos" => 0usize, "observed" => g.short(),
                                                "summary" => format!("/{}/ on {:?} (U+{:04X} against U+{:04X}): regex crate {:?}, fancy-regex {}", pattern, text, c as u32, d as u32, e, g.short())},
                                            );
                                        }
                                    }
                                }
                            }
                        }
                        Which::C03 => {
                            for (plain, forced) in [
                                (format!("(?i){}", sp), format!("(?i){}(?=)", sp)),
                                (format!("(?i){}x", sp), format!("(?i){}(?=)x", sp)),
                                (format!("(?i:{})", sp), format!("(?=)(?i:{})", sp)),
                                (format!("(?i)[{}]x", sp), format!("(?i)[{}](?=)x", sp)),
                                (format!("(?i){}", sp), format!("(?i){}(?!\\x{{0}})", sp)),
                            ] {
                                pair(&mut t, &plain, None, &forced, orbit, c);
                            }
                        }
                        Which::C14 => {
                            for p in [sp.clone(), format!("{}(?=)", sp), format!("(?=){}x", sp), format!("[{}]\\b", sp), format!("(?-i:{})|{}x", sp, sp)] {
                                pair(&mut t, &format!("(?i){}", p), Some(&p), &p, orbit, c);
                            }
                        }
                    }
                }
            }
        }
        t
    });
    Tally::merge_all(tallies)
}

/// compare /a/ with /b/ (b built with case_insensitive(true) when `builder_on` is given)
fn pair(t: &mut Tally, a: &str, builder_on: Option<&str>, b: &str, orbit: &[char], c: char) {
    let ra = engine::compile(a);
    let rb = match builder_on {
        Some(p) => engine::compile_with(p, |bld| {
            bld.case_insensitive(true);
        }),
        None => engine::compile(b),
    };
    let (ra, rb) = match (ra, rb) {
        (Ok(x), Ok(y)) => (x, y),
        (Err(_), Err(_)) => return,
        (Ok(_), Err(e)) => {
            if builder_on.is_some() {
                t.violation(a.len(), jobj! {"kind" => "casefold", "pattern" => a, "variant" => b, "text" => "", "pos" => 0usize, "observed" => format!("{:?}", e), "summary" => format!("/{}/ builds but /{}/ with case_insensitive(true) does not: {:?}", a, b, e)});
            }
            return;
        }
        (Err(e), Ok(_)) => {
            t.violation(a.len(), jobj! {"kind" => "casefold", "pattern" => a, "variant" => b, "text" => "", "pos" => 0usize, "observed" => format!("{:?}", e), "summary" => format!("/{}/ does not build ({:?}) but /{}/ does", a, e, b)});
            return;
        }
    };
    t.programs += 2;
    for &d in orbit {
        for text in [d.to_string(), format!("{}x", d)] {
            t.evaluations += 1;
            let x = engine::captures_at(&ra, &text, 0);
            let y = engine::captures_at(&rb, &text, 0);
            if matches!(x, Out::Match(_)) {
                t.nontrivial += 1;
            }
            if matches!(x, Out::Err(_) | Out::Panic(_)) || matches!(y, Out::Err(_) | Out::Panic(_)) {
                continue;
            }
            // is_match has its own early exits: it must agree with the search on both sides
            for (r, out, pat) in [(&ra, &x, a), (&rb, &y, b)] {
                if let Ok(im) = engine::is_match(r, &text) {
                    if im != matches!(out, Out::Match(_)) {
                        t.violation(
                            pat.len() * 8 + text.len(),
                            jobj! {"kind" => "casefold", "pattern" => pat, "text" => text.as_str(), "pos" => 0usize, "observed" => format!("Ok({})", im),
                            "summary" => format!("/{}/{} on {:?}: is_match = {} but captures = {} (U+{:04X} against U+{:04X})", pat, if builder_on.is_some() && std::ptr::eq(r, &rb) { " built with case_insensitive(true)" } else { "" }, text, im, out.short(), c as u32, d as u32)},
                        );
                    }
                }
            }
            if x != y {
                t.violation(
                    a.len() * 8 + text.len(),
                    jobj! {"kind" => "casefold", "pattern" => a, "variant" => b, "text" => text.as_str(), "pos" => 0usize, "observed" => y.short(),
                    "summary" => format!("/{}/ gives {} but /{}/{} gives {} on {:?} (U+{:04X} against U+{:04X})", a, x.short(), b, if builder_on.is_some() { " built with case_insensitive(true)" } else { "" }, y.short(), text, c as u32, d as u32)},
                );
            }
        }
    }
}

/// The iteration entry points under case-insensitivity, for every cased character: the regex is
/// built in every way case-insensitivity can be switched on (inline flag, builder option, builder
/// option on a spelling the VM runs), and on texts that contain the character and every member of
/// its fold orbit the iteration entry points must tell one story: find_iter = the matches found by
/// restarting find_from_pos, split / splitn = the gaps between them, replacen(0) = the gaps joined
/// by the replacement. All builds must agree with each other as well.
pub fn iter_sweep() -> Tally {
    let orbits = orbits();
    let tallies = par::run_workers(4, |_w, claimer| {
        engine::quiet_panics();
        engine::set_sweep_horizons(40_000, 5_000);
        let mut t = Tally::new();
        for (i, orbit) in orbits.iter().enumerate() {
            if !claimer.is_mine(i) {
                continue;
            }
            for &c in orbit {
                let lit = regex::escape(&c.to_string());
                let builds: Vec<(String, Result<fancy_regex::Regex, engine::CompileFail>)> = vec![
                    (format!("(?i){}", lit), engine::compile(&format!("(?i){}", lit))),
                    (format!("{} built with case_insensitive(true)", lit), engine::compile_with(&lit, |b| { b.case_insensitive(true); })),
                    (format!("{}(?=) built with case_insensitive(true)", lit), engine::compile_with(&format!("{}(?=)", lit), |b| { b.case_insensitive(true); })),
                    (format!("(?i)(?=){}", lit), engine::compile(&format!("(?i)(?=){}", lit))),
                ];
                let mut texts: Vec<String> = Vec::new();
                for &d in orbit {
                    texts.push(d.to_string());
                    texts.push(format!("1{}2{}3", d, c));
                }
                for text in &texts {
                    let mut first: Option<(String, Vec<(usize, usize)>)> = None;
                    for (name, re) in &builds {
                        let re = match re {
                            Ok(r) => r,
                            Err(_) => continue,
                        };
                        t.evaluations += 1;
                        let mut viol = |t: &mut Tally, what: String| {
                            t.violation(
                                name.len() * 8 + text.len(),
                                jobj! {"kind" => "casefold-iter", "pattern" => name.as_str(), "text" => text.as_str(), "pos" => 0usize, "observed" => what.as_str(),
                                "summary" => format!("/{}/ on {:?} (U+{:04X}): {}", name, text, c as u32, what)},
                            );
                        };
                        // the matches by restarting find_from_pos (one-character literal: never empty)
                        let mut expect: Vec<(usize, usize)> = Vec::new();
                        let mut pos = 0usize;
                        let mut bad = false;
                        while pos <= text.len() {
                            match engine::find_at(re, text, pos) {
                                Out::Match(g) => match g.first().copied().flatten() {
                                    Some((s, e)) if e > s && s >= pos && e <= text.len() && text.is_char_boundary(s) && text.is_char_boundary(e) => {
                                        expect.push((s, e));
                                        pos = e;
                                    }
                                    other => {
                                        viol(&mut t, format!("find_from_pos({}) = {:?}: not a non-empty span on character boundaries at or after the start", pos, other));
                                        bad = true;
                                        break;
                                    }
                                },
                                Out::NoMatch => break,
                                _ => {
                                    bad = true;
                                    break;
                                }
                            }
                        }
                        if bad {
                            continue;
                        }
                        if !expect.is_empty() {
                            t.nontrivial += 1;
                        }
                        let fi = engine::find_iter_log(re, text);
                        let got: Vec<(usize, usize)> = fi.items.iter().filter_map(|r| r.as_ref().ok().copied()).collect();
                        if got != expect || fi.panic.is_some() || fi.items.iter().any(|r| r.is_err()) {
                            viol(&mut t, format!("find_iter yields {:?}{} but restarting find_from_pos yields {:?}", fi.items, fi.panic.as_ref().map(|p| format!(" panic {}", p)).unwrap_or_default(), expect));
                        }
                        let mut gaps: Vec<(usize, usize)> = Vec::new();
                        let mut last = 0usize;
                        for &(s, e) in &expect {
                            gaps.push((last, s));
                            last = e;
                        }
                        gaps.push((last, text.len()));
                        let sp = engine::split_log(re, text);
                        let pieces: Vec<(usize, usize)> = sp.items.iter().filter_map(|r| r.as_ref().ok().copied()).collect();
                        if pieces != gaps || sp.panic.is_some() {
                            viol(&mut t, format!("split yields {:?} but the gaps between the matches {:?} are {:?}", sp.items, expect, gaps));
                        }
                        let sn = engine::splitn_log(re, text, 2);
                        let want2: Vec<(usize, usize)> = if expect.is_empty() { vec![(0, text.len())] } else { vec![(0, expect[0].0), (expect[0].1, text.len())] };
                        let pieces2: Vec<(usize, usize)> = sn.items.iter().filter_map(|r| r.as_ref().ok().copied()).collect();
                        if pieces2 != want2 || sn.panic.is_some() {
                            viol(&mut t, format!("splitn(2) yields {:?}, expected {:?}", sn.items, want2));
                        }
                        let want_rep: String = gaps.iter().map(|&(s, e)| &text[s..e]).collect::<Vec<_>>().join("<$>");
                        match engine::replacen_str(re, text, 0, "<$$>") {
                            Ok((s, _)) if s == want_rep => {}
                            other => viol(&mut t, format!("replacen(0, \"<$$>\") = {:?}, expected {:?}", other, want_rep)),
                        }
                        match &first {
                            None => first = Some((name.clone(), expect)),
                            Some((n0, e0)) => {
                                if *e0 != expect {
                                    viol(&mut t, format!("matches {:?} but /{}/ matches {:?}", expect, n0, e0));
                                }
                            }
                        }
                    }
                }
                t.programs += builds.len() as u64;
            }
        }
        t
    });
    Tally::merge_all(tallies)
}

pub fn describe_iter() -> String {
    let o = orbits();
    let n: usize = o.iter().map(|v| v.len()).sum();
    format!(
        "iteration under case-insensitivity: every Unicode scalar value with a non-trivial case mapping ({} characters in {} fold orbits) as a one-character pattern built four ways ((?i)c, c with RegexBuilder::case_insensitive(true), c(?=) with the option, (?i)(?=)c) on every member d of its orbit as the texts d and 1d2c3: find_iter = restarting find_from_pos, split and splitn(2) = the gaps between those matches, replacen(0) = the gaps joined by the replacement, and all four builds agree",
        n,
        o.len()
    )
}
