//! Known-finding attribution. A divergence is attributed to a finding only by a rule tied to the
//! finding's call site (a hook switch that repairs exactly that site, plus a static predicate).

use crate::engine;
use fancy_regex::verif;

pub const KF_FLAG_SCOPE: &str = "KF-FLAG-SCOPE";
pub const KF_F1: &str = "KF-F1";

/// Compile with the H7 switch on (flags restored at every group's closing parenthesis).
pub fn compile_flag_scope_repaired(pattern: &str) -> Option<fancy_regex::Regex> {
    verif::set_flag_scope_repair(true);
    let r = engine::compile(pattern).ok();
    verif::set_flag_scope_repair(false);
    r
}


