//! E2: explicit-state search (stateright) over the VM's real backtracking state (hook H3,
//! `fancy_regex::verif::VmState` wraps the private `vm::State`) against a whole-copy reference.

use fancy_regex::verif::VmState;
use stateright::{Model, Property};
use std::hash::{Hash, Hasher};

#[derive(Clone, Debug, PartialEq, Eq, Hash)]
pub enum Op {
    /// create an alternative (branch) with this (pc, ix)
    Push(usize, usize),
    /// abandon the newest alternative
    Pop,
    /// write a slot
    Save(usize, usize),
    /// enter an atomic construct: remember the number of alternatives on the auxiliary stack
    BeginAtomic,
    /// commit: pop the auxiliary stack and discard the alternatives created since
    EndAtomic,
    /// write every slot (ascending) with this value: one frame with a long undo log
    Burst(usize),
}

/// Whole-state-copy reference: every alternative stores a full copy of the slots and of the
/// auxiliary stack.
#[derive(Clone, Debug, PartialEq, Eq, Hash)]
pub struct RefState {
    pub slots: Vec<usize>,
    pub aux: Vec<usize>,
    pub stack: Vec<(usize, usize, Vec<usize>, Vec<usize>)>,
}

#[derive(Clone, Debug)]
pub struct St {
    pub vm: VmState,
    pub refm: RefState,
    /// first disagreement between the real state and the reference
    pub bad: Option<String>,
    /// number of operations applied; part of the key, so that a parallel search with a depth
    /// target cannot lose a state by first reaching it at a deeper level
    pub depth: u32,
}

impl PartialEq for St {
    fn eq(&self, o: &St) -> bool {
        self.depth == o.depth && self.vm.snapshot() == o.vm.snapshot() && self.refm == o.refm && self.bad.is_some() == o.bad.is_some()
    }
}
impl Eq for St {}
impl Hash for St {
    fn hash<H: Hasher>(&self, h: &mut H) {
        // the undo log's layout is deliberately part of the key: it is what backtrack_cut
        // rewrites, and an over-fine key only costs time
        self.vm.snapshot().hash(h);
        self.refm.hash(h);
        self.bad.is_some().hash(h);
        self.depth.hash(h);
    }
}

pub struct VmModel {
    /// number of (logical) slots
    pub slots: usize,
    pub values: usize,
    /// states reached by this many operations are checked but not expanded
    pub max_ops: u32,
    /// real slot index of every logical slot (dense 0..slots by default; sparse indices such as
    /// [0, 64] look for slots that an implementation confuses, e.g. through a bit mask)
    pub slot_ids: Vec<usize>,
    /// how many of the logical slots get individual Save operations
    pub single: usize,
    /// offer Burst operations
    pub burst: bool,
}

impl VmModel {
    pub fn dense(slots: usize, values: usize, max_ops: u32) -> VmModel {
        VmModel { slots, values, max_ops, slot_ids: (0..slots).collect(), single: slots, burst: false }
    }
    pub fn real_slots(&self) -> usize {
        self.slot_ids.iter().max().map(|m| m + 1).unwrap_or(0)
    }
    pub fn apply(&self, st: &St, op: &Op) -> St {
        let mut n = st.clone();
        if n.bad.is_some() {
            return n;
        }
        n.depth += 1;
        let mut bad: Option<String> = None;
        match *op {
            Op::Push(pc, ix) => {
                n.vm.push(pc, ix);
                n.refm.stack.push((pc, ix, n.refm.slots.clone(), n.refm.aux.clone()));
            }
            Op::Pop => {
                let got = n.vm.pop();
                let (pc, ix, s, a) = n.refm.stack.pop().expect("enabled only with a non-empty stack");
                n.refm.slots = s;
                n.refm.aux = a;
                if got != (pc, ix) {
                    bad = Some(format!("pop returned {:?}, the abandoned alternative was created with {:?}", got, (pc, ix)));
                }
            }
            Op::Save(slot, v) => {
                n.vm.save(self.slot_ids[slot], v);
                n.refm.slots[slot] = v;
            }
            Op::Burst(v) => {
                for slot in 0..self.slots {
                    n.vm.save(self.slot_ids[slot], v);
                    n.refm.slots[slot] = v;
                }
            }
            Op::BeginAtomic => {
                let c = n.vm.backtrack_count();
                n.vm.stack_push(c);
                let rc = n.refm.stack.len();
                n.refm.aux.push(rc);
            }
            Op::EndAtomic => {
                let c = n.vm.stack_pop();
                let rc = n.refm.aux.pop().expect("enabled only with a non-empty auxiliary stack");
                if c != rc {
                    bad = Some(format!("EndAtomic popped {} from the auxiliary stack, the matching BeginAtomic recorded {}", c, rc));
                } else {
                    n.vm.backtrack_cut(c);
                    n.refm.stack.truncate(rc);
                }
            }
        }
        if bad.is_none() {
            for i in 0..self.slots {
                if n.vm.get(self.slot_ids[i]) != n.refm.slots[i] {
                    bad = Some(format!("after {:?}: slot {} is {} but must be {}", op, self.slot_ids[i], n.vm.get(self.slot_ids[i]) as i64, n.refm.slots[i] as i64));
                    break;
                }
            }
            if bad.is_none() && self.real_slots() > self.slots {
                // slots the model never writes must stay unset
                for r in 0..self.real_slots() {
                    if !self.slot_ids.contains(&r) && n.vm.get(r) != usize::MAX {
                        bad = Some(format!("after {:?}: slot {} was never written but holds {}", op, r, n.vm.get(r)));
                        break;
                    }
                }
            }
            if bad.is_none() && n.vm.backtrack_count() != n.refm.stack.len() {
                bad = Some(format!("after {:?}: {} alternatives on the stack, must be {}", op, n.vm.backtrack_count(), n.refm.stack.len()));
            }
        }
        n.bad = bad;
        n
    }

    pub fn ops(&self, st: &St, out: &mut Vec<Op>) {
        if st.bad.is_some() || st.depth >= self.max_ops {
            return;
        }
        // simplest first, so that the first counterexample is also the shortest
        for s in 0..self.single.min(self.slots) {
            for v in 1..=self.values {
                out.push(Op::Save(s, v));
            }
        }
        if self.burst {
            for v in 1..=self.values {
                out.push(Op::Burst(v));
            }
        }
        // (pc, ix) take the depth of the stack so that a wrong pop is visible
        let d = st.refm.stack.len();
        out.push(Op::Push(d + 1, d + 11));
        if !st.refm.stack.is_empty() {
            out.push(Op::Pop);
        }
        out.push(Op::BeginAtomic);
        if !st.refm.aux.is_empty() {
            out.push(Op::EndAtomic);
        }
    }

    pub fn init(&self) -> St {
        St { vm: VmState::new(self.real_slots()), refm: RefState { slots: vec![usize::MAX; self.slots], aux: vec![], stack: vec![] }, bad: None, depth: 0 }
    }
}

impl Model for VmModel {
    type State = St;
    type Action = Op;

    fn init_states(&self) -> Vec<St> {
        vec![self.init()]
    }

    fn actions(&self, st: &St, actions: &mut Vec<Op>) {
        self.ops(st, actions);
    }

    fn next_state(&self, st: &St, op: Op) -> Option<St> {
        Some(self.apply(st, &op))
    }

    fn properties(&self) -> Vec<Property<Self>> {
        vec![Property::always("real state agrees with the whole-copy reference", |_, s: &St| s.bad.is_none())]
    }
}
