//! `./check --replay <file>`: re-execute one recorded case without any explorer and show what the
//! current tree does next to what was recorded. Exit 1 if the recorded observation reproduces.

use crate::engine;
use frmc_core::json::J;

fn battery(pattern: &str, text: &str, pos: usize) -> Vec<(String, String)> {
    let mut out = Vec::new();
    let re = match engine::compile(pattern) {
        Ok(r) => r,
        Err(e) => {
            out.push(("Regex::new".into(), format!("{:?}", e)));
            return out;
        }
    };
    let (vm, del) = engine::engine_class(&re);
    out.push(("engine".into(), if vm { format!("VM program with {} delegate(s)", del) } else { "whole pattern handed to regex-automata".into() }));
    out.push((format!("captures_from_pos({})", pos), engine::captures_at(&re, text, pos).short()));
    out.push((format!("find_from_pos({})", pos), engine::find_at(&re, text, pos).short()));
    out.push(("is_match".into(), format!("{:?}", engine::is_match(&re, text))));
    out.push(("find_iter".into(), format!("{:?}", engine::find_iter_log(&re, text))));
    out.push(("captures_iter".into(), format!("{:?}", engine::captures_iter_log(&re, text).items)));
    out.push(("split".into(), format!("{:?}", engine::split_log(&re, text).items)));
    out
}

pub fn generic(case: &J) -> i32 {
    engine::quiet_panics();
    engine::set_sweep_horizons(400_000, 30_000);
    let pattern = case.str_of("pattern");
    let text = case.str_of("text");
    let pos = case.int_of("pos") as usize;
    println!("property: {}  kind: {}", case.str_of("property"), case.str_of("kind"));
    if let Some(s) = case.get("summary").and_then(|s| s.as_str()) {
        println!("recorded: {}", s);
    }
    let recorded = case.str_of("observed");
    let mut reproduced = false;
    let mut show = |p: &str| {
        println!("--- /{}/ on {:?}", p, text);
        for (k, v) in battery(p, &text, pos) {
            if !recorded.is_empty() && v == recorded {
                reproduced = true;
            }
            println!("  {:<22} {}", k, v);
        }
    };
    show(&pattern);
    for alt in ["variant", "respelled"] {
        if let Some(v) = case.get(alt).and_then(|v| v.as_str()) {
            show(v);
        }
    }
    if reproduced {
        println!("REPRODUCED (an entry point returns the recorded observation)");
        1
    } else {
        println!("the recorded observation was not seen verbatim; compare the lines above with the recorded summary");
        0
    }
}

pub fn compile_only(case: &J) -> i32 {
    engine::quiet_panics();
    let s = case.str_of("pattern");
    println!("recorded: {}", case.str_of("summary"));
    let r = std::panic::catch_unwind(|| fancy_regex::Regex::new(&s).map(|_| ()).map_err(|e| format!("{} ({:?})", e, e)));
    match r {
        Ok(r) => {
            println!("now: {:?}", r);
            0
        }
        Err(p) => {
            println!("now: panic: {}", engine::panic_msg(p));
            1
        }
    }
}
