//! Counting global allocator (C06): tracks current and peak heap bytes when enabled and refuses
//! requests that would push the process over a cap (the resulting abort is caught by the
//! sub-process isolation and attributed to the input being compiled).

use std::alloc::{GlobalAlloc, Layout, System};
use std::sync::atomic::{AtomicBool, AtomicUsize, Ordering};

pub struct Counting;

static ENABLED: AtomicBool = AtomicBool::new(false);
static CURRENT: AtomicUsize = AtomicUsize::new(0);
static PEAK: AtomicUsize = AtomicUsize::new(0);
static CAP: AtomicUsize = AtomicUsize::new(usize::MAX);

unsafe impl GlobalAlloc for Counting {
    unsafe fn alloc(&self, l: Layout) -> *mut u8 {
        if ENABLED.load(Ordering::Relaxed) {
            let cur = CURRENT.fetch_add(l.size(), Ordering::Relaxed) + l.size();
            if cur > CAP.load(Ordering::Relaxed) {
                CURRENT.fetch_sub(l.size(), Ordering::Relaxed);
                return std::ptr::null_mut();
            }
            PEAK.fetch_max(cur, Ordering::Relaxed);
        }
        System.alloc(l)
    }
    unsafe fn dealloc(&self, p: *mut u8, l: Layout) {
        if ENABLED.load(Ordering::Relaxed) {
            // saturating: memory allocated before counting was enabled may be freed now
            let _ = CURRENT.fetch_update(Ordering::Relaxed, Ordering::Relaxed, |c| Some(c.saturating_sub(l.size())));
        }
        System.dealloc(p, l)
    }
    unsafe fn realloc(&self, p: *mut u8, l: Layout, new: usize) -> *mut u8 {
        if ENABLED.load(Ordering::Relaxed) {
            if new > l.size() {
                let d = new - l.size();
                let cur = CURRENT.fetch_add(d, Ordering::Relaxed) + d;
                if cur > CAP.load(Ordering::Relaxed) {
                    CURRENT.fetch_sub(d, Ordering::Relaxed);
                    return std::ptr::null_mut();
                }
                PEAK.fetch_max(cur, Ordering::Relaxed);
            } else {
                let d = l.size() - new;
                let _ = CURRENT.fetch_update(Ordering::Relaxed, Ordering::Relaxed, |c| Some(c.saturating_sub(d)));
            }
        }
        System.realloc(p, l, new)
    }
}

pub fn enable(cap: usize) {
    CAP.store(cap, Ordering::Relaxed);
    CURRENT.store(0, Ordering::Relaxed);
    PEAK.store(0, Ordering::Relaxed);
    ENABLED.store(true, Ordering::Relaxed);
}

/// start a measurement: peak := current
pub fn mark() -> usize {
    let c = CURRENT.load(Ordering::Relaxed);
    PEAK.store(c, Ordering::Relaxed);
    c
}

/// bytes above the mark at the peak
pub fn peak_since(mark: usize) -> usize {
    PEAK.load(Ordering::Relaxed).saturating_sub(mark)
}
