//! frmc: one binary, one sub-command per property.
//!   frmc <ID> quick|thorough
//!   frmc --replay <path>

mod alloc;
mod casefold;
mod common;
mod counts;
mod engine;
mod expr_ir;
mod kf;
mod props;
mod refsweep;
mod replay;
mod spaces;
mod statemodel;
mod wide;

use common::{Ctx, Tier};

#[global_allocator]
static GLOBAL: alloc::Counting = alloc::Counting;
use std::time::Instant;

fn main() {
    let args: Vec<String> = std::env::args().collect();
    if args.len() >= 3 && args[1] == "--replay" {
        let case = match frmc_core::evidence::read_json(std::path::Path::new(&args[2])) {
            Ok(c) => c,
            Err(e) => {
                eprintln!("cannot read replay: {}", e);
                std::process::exit(2);
            }
        };
        std::process::exit(replay(&case));
    }
    if args.len() >= 4 && args[1] == "try" {
        // scratch: frmc try <pattern> <text>
        let re = fancy_regex::Regex::new(&args[2]).unwrap();
        fancy_regex::verif::reset_stats();
        println!("{:?}", engine::captures_at(&re, &args[3], 0));
        println!("{:?}", fancy_regex::verif::stats());
        return;
    }
    if args.len() >= 2 && args[1] == "c18-stress" {
        std::process::exit(props::c18::stress_worker(&args[2..]));
    }
    if args.len() >= 6 && args[1] == "c06-worker" {
        std::process::exit(props::c06::worker(&args[2..]));
    }
    if args.len() >= 5 && args[1] == "counts" {
        // scratch: frmc counts C01|C03|C04 <dense> <top>
        let w = match args[2].as_str() {
            "C01" => counts::Which::C01,
            "C03" => counts::Which::C03,
            "C13" => counts::Which::C13,
            "C07" => counts::Which::C07,
            _ => counts::Which::C04,
        };
        let t0 = Instant::now();
        let t = counts::sweep(w, args[3].parse().unwrap(), args[4].parse().unwrap());
        println!("programs={} evaluations={} nontrivial={} violations={} counters={:?} wall={:.1}s", t.programs, t.evaluations, t.nontrivial, t.n_violations, t.counters, t0.elapsed().as_secs_f64());
        for (_, v) in t.violations.iter().take(12) {
            println!("  {}", v.str_of("summary"));
        }
        return;
    }
    if args.len() >= 4 && args[1] == "wide" {
        // scratch: frmc wide groups|spans|shadow quick|thorough
        let m = match args[2].as_str() {
            "groups" => wide::Mode::Groups,
            "spans" => wide::Mode::Spans,
            _ => wide::Mode::Shadow,
        };
        let t0 = Instant::now();
        let sp = wide::wide_space(args[3] == "quick");
        let t = wide::sweep(&sp, m, 3);
        println!("programs={} evaluations={} nontrivial={} violations={} counters={:?} wall={:.1}s", t.programs, t.evaluations, t.nontrivial, t.n_violations, t.counters, t0.elapsed().as_secs_f64());
        for (_, v) in t.violations.iter().take(12) {
            println!("  {}", v.str_of("summary"));
        }
        return;
    }
    if args.len() >= 3 && args[1] == "casefold" {
        let w = match args[2].as_str() {
            "C03" => casefold::Which::C03,
            "C14" => casefold::Which::C14,
            _ => casefold::Which::C04,
        };
        let t0 = Instant::now();
        let t = casefold::sweep(w);
        println!("{}", casefold::describe(w));
        println!("programs={} evaluations={} nontrivial={} violations={} counters={:?} wall={:.1}s", t.programs, t.evaluations, t.nontrivial, t.n_violations, t.counters, t0.elapsed().as_secs_f64());
        for (_, v) in t.violations.iter().take(12) {
            println!("  {}", v.str_of("summary"));
        }
        return;
    }
    if args.len() >= 2 && args[1] == "bench-sched" {
        props::c18::bench();
        return;
    }
    if args.len() < 2 {
        eprintln!("usage: frmc <ID> [quick|thorough] | --replay <path>");
        std::process::exit(2);
    }
    let tier = match std::env::var("VERIF_TIER").ok().as_deref().or(args.get(2).map(|s| s.as_str())) {
        Some("thorough") => Tier::Thorough,
        _ => Tier::Quick,
    };
    let tier = match args.get(2).map(|s| s.as_str()) {
        Some("thorough") => Tier::Thorough,
        Some("quick") => Tier::Quick,
        _ => tier,
    };
    let seed = std::env::var("VERIF_SEED").ok().and_then(|s| s.parse().ok()).unwrap_or(0);
    let cx = Ctx { prop: args[1].clone(), tier, seed, t0: Instant::now() };
    let code = match args[1].as_str() {
        "C01" => props::c01::run_c01(&cx),
        "C02" => props::c01::run_c02(&cx),
        "C15" => props::c01::run_c15(&cx),
        "C05" => props::c05::run_c05(&cx),
        "C09" => props::c05::run_c09(&cx),
        "C07" => props::c07::run_c07(&cx),
        "C19" => props::c19::run_c19(&cx),
        "C06" => props::c06::run_c06(&cx),
        "C18" => props::c18::run_c18(&cx),
        "C20" => props::c20::run_c20(&cx),
        "C14" => props::c14::run_c14(&cx),
        "C12" => props::c12::run_c12(&cx),
        "C16" => props::c16::run_c16(&cx),
        "C17" => props::c16::run_c17(&cx),
        "C08" => props::iters::run_c08(&cx),
        "C10" => props::iters::run_c10(&cx),
        "C11" => props::iters::run_c11(&cx),
        "C04" => props::c04::run_c04(&cx),
        "C03" => props::c03::run_c03(&cx),
        "C13" => props::c13::run_c13(&cx),
        other => {
            eprintln!("unknown property {}", other);
            2
        }
    };
    std::process::exit(code);
}

fn replay(case: &frmc_core::json::J) -> i32 {
    match case.str_of("kind").as_str() {
        "refsweep" | "shadow" => refsweep::replay(case),
        "c20" => props::c20::replay(case),
        "c06" => replay::compile_only(case),
        "c18" | "c18-static" | "c18-crosstalk" | "c18-stress" | "c12" | "c17" => {
            println!("{}", case.to_string_pretty());
            println!("(this kind is replayed by re-running `./check {} quick`; the record above holds the inputs and the schedule)", case.str_of("property"));
            0
        }
        _ => replay::generic(case),
    }
}
