//! Large repeat counts: every count n up to a bound, in delegated and in VM-interpreted positions.
//!
//! The small pattern spaces only use counts up to 3; a repeat bound is a number that is parsed,
//! analysed (min size), compiled into a counter loop or *re-serialised as text* for the automata
//! engine (`Expr::to_str`), and each of those steps can go wrong only for particular numbers (two
//! digits, a zero digit, more than 255, ...). This sweep enumerates **every** n in 0..=N for a fixed
//! family of one-letter patterns whose expected behaviour on the texts a^m is closed-form, so the
//! oracle needs no reference matcher: `^a{n}$` matches a^m iff m = n, and so on.

use crate::common::*;
use crate::engine::{self, CompileFail, Out};
use frmc_core::jobj;
use frmc_core::par;

#[derive(Clone, Copy, PartialEq, Eq, Debug)]
pub enum Which {
    /// fancy patterns against the closed form (the reference semantics of a counted repeat)
    C01,
    /// plain spelling against a spelling forced into the VM; both must agree
    C03,
    /// plain patterns against the regex crate (and the closed form)
    C04,
    /// look-behinds whose constant size is a large count
    C13,
    /// large and nested counts around a body that can match the empty string, on tiny texts:
    /// no limit error although the exploration is tiny
    C07,
}

struct Form {
    /// `{}` is replaced by the bound spelling
    template: &'static str,
    kind: Kind,
    /// largest n for this form (VM loops with a hard body are compiled by unrolling)
    cap: usize,
}

#[derive(Clone, Copy)]
enum Kind {
    /// `{n}`: matches a^m iff m == mult*n
    Exact(usize),
    /// `{n,}`: m >= n
    AtLeast,
    /// `{1,n}` (n >= 1): 1 <= m <= n
    UpTo,
    /// negative look-behind of size n: m < n
    LessThan,
    /// body can match the empty string, texts of length 0..2: always a match (n >= 2)
    Tiny,
    /// `^.*(?<=a{N})$`: the last N characters are all a (texts with an x in them)
    Suffix,
    /// `^.*(?<=.{N})b$`: at least N characters (of mixed UTF-8 widths) stand before the b
    CharsBefore,
}

const FANCY_FORMS: &[Form] = &[
    Form { template: "^(?=)a{N}$", kind: Kind::Exact(1), cap: usize::MAX },
    Form { template: "^(?=)a{N,}$", kind: Kind::AtLeast, cap: usize::MAX },
    Form { template: "^(?<!b)a{1,N}$", kind: Kind::UpTo, cap: usize::MAX },
    Form { template: "^(?>a{N,})$", kind: Kind::AtLeast, cap: usize::MAX },
    Form { template: "^(?>a{N})(?=$)", kind: Kind::Exact(1), cap: usize::MAX },
    Form { template: "^(a{N})\\1$", kind: Kind::Exact(2), cap: usize::MAX },
    Form { template: "^(?:a(?=)){N}$", kind: Kind::Exact(1), cap: 600 },
    Form { template: "^(?:a(?=)){N,}$", kind: Kind::AtLeast, cap: 600 },
    Form { template: "^(?:a(?=)){1,N}$", kind: Kind::UpTo, cap: 600 },
    Form { template: "^(?:(a)\\1){N}$", kind: Kind::Exact(2), cap: 600 },
    Form { template: "^(?:a(?=)){N}?$", kind: Kind::Exact(1), cap: 300 },
    Form { template: "^(?:a(?=)){1,N}?$", kind: Kind::UpTo, cap: 300 },
    Form { template: "^(?:a(?=)){N,}+$", kind: Kind::AtLeast, cap: 300 },
];

const LOOKBEHIND_FORMS: &[Form] = &[
    Form { template: "^.*(?<=a{N})$", kind: Kind::Suffix, cap: 3_000 },
    Form { template: "^.*(?<=(?=)a{N})$", kind: Kind::Suffix, cap: 3_000 },
    Form { template: "^.*(?<=a{N})(?<!xa{N})$", kind: Kind::Suffix, cap: 3_000 },
    Form { template: "^.*(?<=.{N})b$", kind: Kind::CharsBefore, cap: 300 },
    Form { template: "^.*(?<!.{N})b$", kind: Kind::CharsBefore, cap: 300 },
    Form { template: "^.*(?<=(?=).{N})b$", kind: Kind::CharsBefore, cap: 300 },
    Form { template: "^a*(?<=^a{N})$", kind: Kind::Exact(1), cap: 20_000 },
    Form { template: "^a*(?<=a{N})$", kind: Kind::AtLeast, cap: 20_000 },
    Form { template: "^a*(?<!a{N})$", kind: Kind::LessThan, cap: 20_000 },
    Form { template: "^a*(?<=(?:a|a){N})$", kind: Kind::AtLeast, cap: 300 },
    Form { template: "^a*(?<=(?=)a{N})$", kind: Kind::AtLeast, cap: 20_000 },
];

const NULLABLE_FORMS: &[Form] = &[
    Form { template: "^(?:(?=)|a){0,N}$", kind: Kind::Tiny, cap: 5000 },
    Form { template: "^(?:\\B|a){0,N}$", kind: Kind::Tiny, cap: 5000 },
    Form { template: "^(?:(?:(?=)|a){0,N}){0,N}$", kind: Kind::Tiny, cap: 40 },
    Form { template: "^(?:(?:(?:(?=)|a){0,N}){0,N}){0,N}$", kind: Kind::Tiny, cap: 12 },
    Form { template: "^(?:a?(?=)){N}$", kind: Kind::Tiny, cap: 600 },
    Form { template: "^(?:(?:a(?=))?){2,N}$", kind: Kind::Tiny, cap: 600 },
    Form { template: "^(?:(a)|(?=)){0,N}\\1?$", kind: Kind::Tiny, cap: 600 },
];

const PLAIN_FORMS: &[Form] = &[
    Form { template: "^a{N}$", kind: Kind::Exact(1), cap: usize::MAX },
    Form { template: "^a{N,}$", kind: Kind::AtLeast, cap: usize::MAX },
    Form { template: "^a{1,N}$", kind: Kind::UpTo, cap: usize::MAX },
    Form { template: "^(?:a{N})\\b$", kind: Kind::Exact(1), cap: usize::MAX },
    Form { template: "^a{1,N}?\\b$", kind: Kind::UpTo, cap: usize::MAX },
    Form { template: "^(?i)A{N}$", kind: Kind::Exact(1), cap: usize::MAX },
    Form { template: "^[ab]{N,}$", kind: Kind::AtLeast, cap: usize::MAX },
];

/// (plain, forced-into-the-VM) spellings for C03
const PAIRS: &[(&str, &str)] = &[
    ("a{N}", "(?=)a{N}"),
    ("a{N,}$", "a{N,}(?=)$"),
    ("^a{1,N}$", "^(?=)a{1,N}$"),
    ("(a{N})b", "(a{N})(?=)b"),
    ("(?:a{N})*$", "(?:a{N}(?=))*$"),
];

fn spell(t: &str, n: usize) -> String {
    t.replace('N', &n.to_string())
}

fn expect(kind: Kind, n: usize, m: usize) -> bool {
    match kind {
        Kind::Exact(mult) => m == mult * n,
        Kind::AtLeast => m >= n,
        Kind::UpTo => m >= 1 && m <= n,
        Kind::LessThan => m < n,
        Kind::Tiny => true,
        Kind::Suffix | Kind::CharsBefore => unreachable!(),
    }
}

/// texts with their expected verdict
fn cases(f: &Form, n: usize) -> Vec<(String, bool)> {
    if let Kind::Suffix = f.kind {
        let a = |k: usize| "a".repeat(k);
        let third = f.template.contains("(?<!xa{N})");
        let mut v = vec![
            (a(n), true),
            (a(n + 1), true),
            (format!("x{}", a(n)), !third),
            (format!("ax{}", a(n)), !third),
        ];
        if n >= 1 {
            v.push((a(n - 1), false));
            v.push((format!("x{}", a(n - 1)), false));
            v.push((format!("{}x{}", a(n), a(n - 1)), false));
            v.push((format!("{}x", a(n)), n == 0));
        }
        if n >= 2 {
            // only the first / only the last few of the N characters are a
            v.push((format!("{}x{}", a(n / 2), a(n - n / 2 - 1)), false));
            v.push((format!("{}{}", a(n / 10 + 1), "x".repeat(n - n / 10 - 1)), false));
        }
        return v;
    }
    if let Kind::CharsBefore = f.kind {
        let negated = f.template.contains("(?<!");
        let mut v = Vec::new();
        for t in [n.saturating_sub(1), n, n + 1] {
            let rep = |c: &str, k: usize| c.repeat(k);
            let mut bodies = vec![rep("é", t), rep("a", t)];
            if t >= 1 {
                bodies.push(format!("{}a", rep("é", t - 1)));
                bodies.push(format!("a{}", rep("é", t - 1)));
                bodies.push(format!("€{}", rep("é", t - 1)));
                bodies.push(format!("{}😀", rep("é", t - 1)));
                bodies.push((0..t).map(|i| if i % 2 == 0 { "é" } else { "a" }).collect::<String>());
                bodies.push((0..t).map(|i| ["a", "é", "€", "😀"][i % 4]).collect::<String>());
            }
            if t >= 9 {
                bodies.push(format!("{}{}", rep("a", t - 8), rep("é", 8)));
                bodies.push(format!("{}a{}", rep("é", 8), rep("a", t - 9)));
            }
            for b in bodies {
                // (?<=.{0}) always holds, (?<!.{0}) never does
                let holds = t >= n;
                v.push((format!("{}b", b), if negated { !holds } else { holds }));
            }
        }
        v.sort();
        v.dedup();
        return v;
    }
    lengths(f.kind, n)
        .into_iter()
        .map(|m| {
            // \b needs a word character next to it: the empty text has no boundary
            let exp = expect(f.kind, n, m) && !(m == 0 && f.template.contains("\\b"));
            (text_of(m), exp)
        })
        .collect()
}

fn lengths(kind: Kind, n: usize) -> Vec<usize> {
    if let Kind::Tiny = kind {
        return vec![0, 1, 2];
    }
    let mut v = vec![n.saturating_sub(1), n, n + 1];
    if let Kind::Exact(2) = kind {
        v.extend([(2 * n).saturating_sub(1), 2 * n, 2 * n + 1]);
    }
    if let Kind::UpTo = kind {
        v.push(1);
    }
    v.sort();
    v.dedup();
    v
}

/// The counts explored: every n up to `dense`, then the neighbours of powers of two and ten up to `top`.
pub fn counts(dense: usize, top: usize) -> Vec<usize> {
    let mut v: Vec<usize> = (0..=dense).collect();
    let mut p = 1usize;
    while p <= top {
        for d in [p.saturating_sub(1), p, p + 1] {
            if d > dense && d <= top {
                v.push(d);
            }
        }
        p *= 2;
    }
    let mut p = 1usize;
    while p <= top {
        for d in [p.saturating_sub(1), p, p + 1, p + 5, 3 * p] {
            if d > dense && d <= top {
                v.push(d);
            }
        }
        p *= 10;
    }
    v.sort();
    v.dedup();
    v
}

pub fn describe(which: Which, dense: usize, top: usize) -> String {
    let top = top_for(which, top);
    let forms: Vec<&str> = match which {
        Which::C01 => FANCY_FORMS.iter().chain(LOOKBEHIND_FORMS.iter()).chain(NULLABLE_FORMS.iter()).map(|f| f.template).collect(),
        Which::C04 => PLAIN_FORMS.iter().map(|f| f.template).collect(),
        Which::C03 => PAIRS.iter().map(|p| p.1).collect(),
        Which::C13 => LOOKBEHIND_FORMS.iter().map(|f| f.template).collect(),
        Which::C07 => NULLABLE_FORMS.iter().map(|f| f.template).collect(),
    };
    format!(
        "large-count sweep: every repeat bound N in 0..={} and the neighbours of the powers of 2 and 10 up to {} ({} values) in the forms {:?} on the texts a^m for m around N (N-1, N, N+1; 2N for doubled forms); oracle: {}",
        dense,
        top,
        counts(dense, top).len(),
        forms,
        match which {
            Which::C01 => "closed form (a^m is matched by ^a{N}$ iff m = N, by {N,} iff m >= N, by {1,N} iff 1 <= m <= N)",
            Which::C04 => "the regex crate on the identical string, and the closed form",
            Which::C03 => "the plain spelling and the spelling with an injected (?=) agree on span and groups",
            Which::C13 => "closed form: the look-behind looks back exactly N characters (a^m has N a's before its end iff m >= N)",
            Which::C07 => "the texts are '', 'a', 'aa', the body can match the empty string, N >= 2: always a match, found without any limit error (StackOverflow / BacktrackLimitExceeded)",
        }
    )
}

/// The unanchored C03 pairs make the VM try every start position (quadratic in the text length).
pub fn top_for(which: Which, top: usize) -> usize {
    if which == Which::C03 {
        top.min(2100)
    } else {
        top
    }
}

/// Runs the sweep and returns its tally (violations carry kind "counts").
pub fn sweep(which: Which, dense: usize, top: usize) -> Tally {
    let top = top_for(which, top);
    // largest first: the big counts dominate the cost
    let mut ns = counts(dense, top);
    ns.reverse();
    let tallies = par::run_workers(1, |_w, claimer| {
        engine::quiet_panics();
        // no branch-stack horizon: a VM-interpreted {1,N} legitimately holds N branches (the
        // crate's own cap of 1 000 000 stays in force); the fuel horizon still cuts a runaway loop
        engine::set_sweep_horizons(400_000_000, 0);
        let mut t = Tally::new();
        for (i, &n) in ns.iter().enumerate() {
            if !claimer.is_mine(i) {
                continue;
            }
            match which {
                Which::C01 => {
                    for f in FANCY_FORMS.iter().chain(LOOKBEHIND_FORMS.iter()) {
                        if n <= f.cap {
                            one_form(&mut t, f, n, false);
                        }
                    }
                    for f in NULLABLE_FORMS {
                        if n <= f.cap && n >= 2 {
                            one_form(&mut t, f, n, false);
                        }
                    }
                }
                Which::C04 => {
                    for f in PLAIN_FORMS {
                        one_form(&mut t, f, n, true);
                    }
                }
                Which::C13 => {
                    for f in LOOKBEHIND_FORMS {
                        if n <= f.cap {
                            one_form(&mut t, f, n, false);
                        }
                    }
                }
                Which::C07 => {
                    for f in NULLABLE_FORMS {
                        if n <= f.cap && n >= 2 {
                            one_form(&mut t, f, n, false);
                        }
                    }
                }
                Which::C03 => {
                    for (p, v) in PAIRS {
                        one_pair(&mut t, &spell(p, n), &spell(v, n), n);
                    }
                }
            }
        }
        t
    });
    Tally::merge_all(tallies)
}

fn text_of(m: usize) -> String {
    "a".repeat(m)
}

fn one_form(t: &mut Tally, f: &Form, n: usize, against_regex_crate: bool) {
    if matches!(f.kind, Kind::UpTo) && n == 0 {
        return;
    }
    if matches!(f.kind, Kind::LessThan) && n == 0 {
        // (?<!a{0}) never holds
        return;
    }
    let pattern = spell(f.template, n);
    let rx = if against_regex_crate { Some(regex::Regex::new(&pattern)) } else { None };
    let re = match engine::compile(&pattern) {
        Ok(r) => r,
        Err(CompileFail::Err(kind)) => {
            // a size-limit error is legitimate for huge counts; against the regex crate both must
            // agree, otherwise it must be a CompiledTooBig-style inner error and n must be large
            let legit = match &rx {
                Some(r) => r.is_err(),
                None => n > 2000 && kind.contains("InnerError"),
            };
            if legit {
                t.count("counts_both_reject_or_size_limit", 1);
            } else {
                t.violation(
                    pattern.len(),
                    jobj! {"kind" => "counts", "pattern" => pattern.as_str(), "text" => "", "pos" => 0usize, "observed" => kind.as_str(),
                    "summary" => format!("/{}/ does not compile: {}", pattern, kind)},
                );
            }
            return;
        }
        Err(CompileFail::Panic(p)) => {
            t.violation(pattern.len(), jobj! {"kind" => "counts", "pattern" => pattern.as_str(), "text" => "", "pos" => 0usize, "observed" => p.as_str(), "summary" => format!("/{}/: Regex::new panics: {}", pattern, p)});
            return;
        }
    };
    if let Some(Err(_)) = &rx {
        // the regex crate hits its size limit where fancy-regex interprets the repeat in the VM
        // and never builds the large automaton: not a disagreement about matching
        t.count("regex_crate_rejects_size_limit(skipped)", 1);
        return;
    }
    t.programs += 1;
    for (text, exp) in cases(f, n) {
        let m = text.len();
        t.evaluations += 1;
        if exp {
            t.nontrivial += 1;
        }
        let got = engine::find_at(&re, &text, 0);
        // every form is anchored at both ends: a match is the whole text
        let got_b = match &got {
            Out::Match(g) => Some(g[0] == Some((0, m))),
            Out::NoMatch => Some(false),
            _ => None,
        };
        let shown = if m <= 24 { format!("{:?}", text) } else if text.bytes().all(|b| b == b'a') { format!("a^{}", m) } else { format!("{:?}...({} bytes)", text.chars().take(12).collect::<String>(), m) };
        if got_b != Some(exp) {
            t.violation(
                pattern.len() + 4 * m,
                jobj! {"kind" => "counts", "pattern" => pattern.as_str(), "text" => text.as_str(), "pos" => 0usize, "observed" => got.short(),
                "summary" => format!("/{}/ on {}: expected {} (closed form), engine {}", pattern, shown, if exp { format!("a match (0,{})", m) } else { "no match".into() }, got.short())},
            );
            continue;
        }
        if let Some(Ok(rx)) = &rx {
            let e = rx.find(&text).map(|x| (x.start(), x.end()));
            if e != got.span() {
                t.violation(
                    pattern.len() + 4 * m,
                    jobj! {"kind" => "counts", "pattern" => pattern.as_str(), "text" => text.as_str(), "pos" => 0usize, "observed" => got.short(),
                    "summary" => format!("/{}/ on {}: regex crate {:?}, fancy-regex {}", pattern, shown, e, got.short())},
                );
            }
        }
        if let Ok(b) = engine::is_match(&re, &text) {
            if b != exp {
                t.violation(
                    pattern.len() + 4 * m,
                    jobj! {"kind" => "counts", "pattern" => pattern.as_str(), "text" => text.as_str(), "pos" => 0usize, "observed" => format!("Ok({})", b),
                    "summary" => format!("/{}/ on {}: is_match = {}, expected {}", pattern, shown, b, exp)},
                );
            }
        }
    }
}

fn one_pair(t: &mut Tally, plain: &str, forced: &str, n: usize) {
    if n == 0 && plain.contains("{1,0}") {
        return;
    }
    let a = engine::compile(plain);
    let b = engine::compile(forced);
    let (a, b) = match (a, b) {
        (Ok(a), Ok(b)) => (a, b),
        (Err(_), Err(_)) => {
            t.count("counts_both_reject", 1);
            return;
        }
        (Ok(_), Err(_)) => {
            // "whenever the modified pattern still compiles"
            t.count("counts_variant_rejected(skipped)", 1);
            return;
        }
        (Err(e), Ok(_)) => {
            t.violation(plain.len(), jobj! {"kind" => "counts", "pattern" => plain, "variant" => forced, "text" => "", "pos" => 0usize, "observed" => format!("{:?}", e), "summary" => format!("/{}/ does not compile ({:?}) but /{}/ does", plain, e, forced)});
            return;
        }
    };
    t.programs += 2;
    for m in [n.saturating_sub(1), n, n + 1, 2 * n, 2 * n + 1] {
        for tail in ["", "b"] {
            let text = format!("{}{}", text_of(m), tail);
            t.evaluations += 1;
            let x = engine::captures_at(&a, &text, 0);
            let y = engine::captures_at(&b, &text, 0);
            if matches!(x, Out::Match(_)) {
                t.nontrivial += 1;
            }
            if matches!(x, Out::Err(_)) || matches!(y, Out::Err(_)) {
                // limit errors are C07's subject
                t.count("counts_limit_errors(skipped)", 1);
                continue;
            }
            if x != y {
                let shown = if m <= 24 { format!("{:?}", text) } else { format!("a^{}{}", m, tail) };
                t.violation(
                    plain.len() + 4 * m,
                    jobj! {"kind" => "counts", "pattern" => plain, "variant" => forced, "text" => text.as_str(), "pos" => 0usize, "observed" => y.short(),
                    "summary" => format!("/{}/ gives {} but /{}/ gives {} on {}", plain, x.short(), forced, y.short(), shown)},
                );
            }
        }
    }
}
