//! Compile-time part of C18: `Regex` must be `Send + Sync + Clone`. A build failure of this
//! crate alone is reported by `./check C18` as a violation.
fn _assert_send_sync_clone<T: Send + Sync + Clone>() {}
pub fn c18_static() {
    _assert_send_sync_clone::<fancy_regex::Regex>();
}
